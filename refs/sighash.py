"""Transcriptions of the three signature-hash algorithms as *preimage builders*:

* legacy: Bitcoin Core's SignatureHash / CTransactionSignatureSerializer (src/script/interpreter.cpp)
* BIP143 (segwit v0) and BIP341/342 (taproot SigMsg + extension)

Inputs are plain field values (ints / byte strings, concrete or symbolic); hash functions are passed in.
"""
OP_CODESEPARATOR = 0xAB


def le(x, n, signed=False):
    return x.to_bytes(n, "little", signed=signed)


def compact_size(n):
    if n < 253:
        return bytes([n])
    if n <= 0xFFFF:
        return b"\xfd" + n.to_bytes(2, "little")
    if n <= 0xFFFFFFFF:
        return b"\xfe" + n.to_bytes(4, "little")
    return b"\xff" + n.to_bytes(8, "little")


def ser_string(b):
    return compact_size(len(b)) + b


def outpoint(txid_internal, vout):
    return txid_internal + le(vout, 4)


def remove_codeseparators(script):
    """CScript iteration: drop OP_CODESEPARATOR opcodes that are opcodes (not push data); keep a truncated tail as is."""
    out = b""
    pc = 0
    n = len(script)
    while pc < n:
        start = pc
        op = script[pc]
        pc += 1
        size = 0
        if op <= 0x4E:
            if op < 0x4C:
                size = op
            else:
                nb = 1 << (op - 0x4C)
                if n - pc < nb:
                    return out + script[start:]
                size = int.from_bytes(script[pc:pc + nb], "little")
                pc += nb
            if n - pc < size:
                return out + script[start:]
            pc += size
        if op != OP_CODESEPARATOR:
            out += script[start:pc]
    return out


def legacy_preimage(version, lock_time, vin, vout, script_code, n_in, hash_type):
    """vin: [(txid_internal, vout_index, sequence)], vout: [(value, script)]. Returns None for the SIGHASH_SINGLE 'one' case."""
    acp = (hash_type & 0x80) != 0
    single = (hash_type & 0x1F) == 3
    none = (hash_type & 0x1F) == 2
    if single and n_in >= len(vout):
        return None
    script_code = remove_codeseparators(script_code)
    out = le(version, 4)
    n_inputs = 1 if acp else len(vin)
    out += compact_size(n_inputs)
    for k in range(n_inputs):
        i = n_in if acp else k
        txid, idx, seq_ = vin[i]
        out += outpoint(txid, idx)
        out += ser_string(script_code) if i == n_in else compact_size(0)
        if i != n_in and (single or none):
            out += le(0, 4)
        else:
            out += le(seq_, 4)
    n_outputs = 0 if none else (n_in + 1 if single else len(vout))
    out += compact_size(n_outputs)
    for i in range(n_outputs):
        if single and i != n_in:
            out += le(-1, 8, signed=True) + compact_size(0)
        else:
            out += le(vout[i][0], 8, signed=True) + ser_string(vout[i][1])
    out += le(lock_time, 4)
    out += le(hash_type & 0xFFFFFFFF, 4)
    return out


def bip143_preimage(version, lock_time, vin, vout, script_code, n_in, hash_type, amount, dsha256):
    acp = (hash_type & 0x80) != 0
    base = hash_type & 0x1F
    zero = b"\x00" * 32
    hash_prevouts = zero if acp else dsha256(b"".join(outpoint(t, i) for t, i, s in vin))
    hash_sequence = zero if (acp or base == 3 or base == 2) else dsha256(b"".join(le(s, 4) for t, i, s in vin))
    if base != 3 and base != 2:
        hash_outputs = dsha256(b"".join(le(v, 8, signed=True) + ser_string(s) for v, s in vout))
    elif base == 3 and n_in < len(vout):
        hash_outputs = dsha256(le(vout[n_in][0], 8, signed=True) + ser_string(vout[n_in][1]))
    else:
        hash_outputs = zero
    t, i, s = vin[n_in]
    return (le(version, 4) + hash_prevouts + hash_sequence + outpoint(t, i) + ser_string(script_code) + le(amount, 8, signed=True) + le(s, 4)
            + hash_outputs + le(lock_time, 4) + le(hash_type & 0xFFFFFFFF, 4))


def bip341_sigmsg(version, lock_time, vin, vout, prevouts, n_in, hash_type, ext_flag, annex, ext, sha256):
    """prevouts: [(amount, script_pub_key)]. Returns the bytes fed to tagged_hash('TapSighash', .), epoch byte included; raises ValueError for the BIP's errors."""
    if hash_type not in (0, 1, 2, 3, 0x81, 0x82, 0x83):
        raise ValueError("invalid hash_type")
    acp = (hash_type & 0x80) == 0x80
    out_type = 1 if hash_type == 0 else hash_type & 3      # SIGHASH_DEFAULT behaves as ALL
    if out_type == 3 and n_in >= len(vout):
        raise ValueError("SIGHASH_SINGLE without corresponding output")
    m = b"\x00" + bytes([hash_type]) + le(version, 4) + le(lock_time, 4)
    if not acp:
        m += sha256(b"".join(outpoint(t, i) for t, i, s in vin))
        m += sha256(b"".join(le(a, 8, signed=True) for a, spk in prevouts))
        m += sha256(b"".join(ser_string(spk) for a, spk in prevouts))
        m += sha256(b"".join(le(s, 4) for t, i, s in vin))
    if out_type == 1:
        m += sha256(b"".join(le(v, 8, signed=True) + ser_string(s) for v, s in vout))
    annex_present = 1 if annex else 0
    m += bytes([2 * ext_flag + annex_present])
    if acp:
        t, i, s = vin[n_in]
        m += outpoint(t, i) + le(prevouts[n_in][0], 8, signed=True) + ser_string(prevouts[n_in][1]) + le(s, 4)
    else:
        m += le(n_in, 4)
    if annex_present:
        m += sha256(ser_string(annex))
    if out_type == 3:
        m += sha256(le(vout[n_in][0], 8, signed=True) + ser_string(vout[n_in][1]))
    return m + ext
