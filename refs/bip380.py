"""BIP380 descriptor checksum: transcription of the BIP's reference (descsum_polymod / descsum_expand / descsum_create)."""
from sx.api import ite

INPUT_CHARSET = "0123456789()[],'/*abcdefgh@:$%{}IJKLMNOPQRSTUVWXYZ&+-.;<=>?!^_|~ijklmnopqrstuvwxyzABCDEFGH`#\"\\ "
CHECKSUM_CHARSET = "qpzry9x8gf2tvdw0s3jn54khce6mua7l"
GENERATOR = [0xF5DEE51989, 0xA9FDCA3312, 0x1BAB10E32D, 0x3706B1677A, 0x644D626FFD]
_POS = {ord(c): i for i, c in enumerate(INPUT_CHARSET)}


def polymod(symbols):
    chk = 1
    for value in symbols:
        top = chk >> 35
        chk = ((chk & 0x7FFFFFFFF) << 5) ^ value
        for i in range(5):
            chk = chk ^ ite(((top >> i) & 1) != 0, GENERATOR[i], 0)
    return chk


def expand(codes):
    """codes: code points of the descriptor; returns None if a character is outside INPUT_CHARSET."""
    groups = []
    symbols = []
    for c in codes:
        v = _POS.get(c, -1)
        if bool(v == -1):
            return None
        symbols.append(v & 31)
        groups.append(v >> 5)
        if len(groups) == 3:
            symbols.append(groups[0] * 9 + groups[1] * 3 + groups[2])
            groups = []
    if len(groups) == 1:
        symbols.append(groups[0])
    elif len(groups) == 2:
        symbols.append(groups[0] * 3 + groups[1])
    return symbols


def create(codes):
    """The 8 checksum symbols (5-bit values) of a descriptor body, or None."""
    symbols = expand(codes)
    if symbols is None:
        return None
    checksum = polymod(symbols + [0] * 8) ^ 1
    return [(checksum >> (5 * (7 - i))) & 31 for i in range(8)]
