"""Transcription of Bitcoin Core's EvalScript (src/script/interpreter.cpp) for the signature-free part.

Covers: CScriptNum (4-byte limit, fRequireMinimal), CastToBool, push opcodes with CheckMinimalPush,
the constants, flow control with MINIMALIF, every stack / splice(SIZE) / bitwise(EQUAL) / arithmetic /
comparison / hash opcode, NOPs with DISCOURAGE_UPGRADABLE_NOPS, CLTV / CSV (BIP65 / BIP112),
disabled and reserved opcodes, the op-count, element-size and stack-size limits, unbalanced conditionals.
CHECKSIG-family opcodes are NOT covered (scripts containing them are outside this reference).

Written with plain operators so that stack elements may be concrete bytes or the engine's symbolic
bytes of concrete length. Hash functions are the caller's (so that an uninterpreted function can be
shared with the library under test).
"""
from sx.api import ite, sand, sor, snot

MAX_SCRIPT_ELEMENT_SIZE = 520
MAX_OPS_PER_SCRIPT = 201
MAX_STACK_SIZE = 1000
MAX_SCRIPT_SIZE = 10000
LOCKTIME_THRESHOLD = 500000000
SEQUENCE_FINAL = 0xFFFFFFFF
SEQUENCE_LOCKTIME_DISABLE_FLAG = 1 << 31
SEQUENCE_LOCKTIME_TYPE_FLAG = 1 << 22
SEQUENCE_LOCKTIME_MASK = 0x0000FFFF

OP_0, OP_PUSHDATA1, OP_PUSHDATA2, OP_PUSHDATA4, OP_1NEGATE, OP_RESERVED, OP_1, OP_16 = 0x00, 0x4C, 0x4D, 0x4E, 0x4F, 0x50, 0x51, 0x60
OP_NOP, OP_VER, OP_IF, OP_NOTIF, OP_VERIF, OP_VERNOTIF, OP_ELSE, OP_ENDIF, OP_VERIFY, OP_RETURN = range(0x61, 0x6B)
OP_TOALTSTACK, OP_FROMALTSTACK, OP_2DROP, OP_2DUP, OP_3DUP, OP_2OVER, OP_2ROT, OP_2SWAP, OP_IFDUP, OP_DEPTH, OP_DROP, OP_DUP, OP_NIP, OP_OVER, OP_PICK, OP_ROLL, OP_ROT, OP_SWAP, OP_TUCK = range(0x6B, 0x7E)
OP_CAT, OP_SUBSTR, OP_LEFT, OP_RIGHT, OP_SIZE, OP_INVERT, OP_AND, OP_OR, OP_XOR, OP_EQUAL, OP_EQUALVERIFY, OP_RESERVED1, OP_RESERVED2 = range(0x7E, 0x8B)
OP_1ADD, OP_1SUB, OP_2MUL, OP_2DIV, OP_NEGATE, OP_ABS, OP_NOT, OP_0NOTEQUAL, OP_ADD, OP_SUB, OP_MUL, OP_DIV, OP_MOD, OP_LSHIFT, OP_RSHIFT = range(0x8B, 0x9A)
OP_BOOLAND, OP_BOOLOR, OP_NUMEQUAL, OP_NUMEQUALVERIFY, OP_NUMNOTEQUAL, OP_LESSTHAN, OP_GREATERTHAN, OP_LESSTHANOREQUAL, OP_GREATERTHANOREQUAL, OP_MIN, OP_MAX, OP_WITHIN = range(0x9A, 0xA6)
OP_RIPEMD160, OP_SHA1, OP_SHA256, OP_HASH160, OP_HASH256, OP_CODESEPARATOR, OP_CHECKSIG, OP_CHECKSIGVERIFY, OP_CHECKMULTISIG, OP_CHECKMULTISIGVERIFY = range(0xA6, 0xB0)
OP_NOP1, OP_CHECKLOCKTIMEVERIFY, OP_CHECKSEQUENCEVERIFY, OP_NOP4 = 0xB0, 0xB1, 0xB2, 0xB3
OP_NOP10 = 0xB9
OP_CHECKSIGADD = 0xBA
DISABLED = {OP_CAT, OP_SUBSTR, OP_LEFT, OP_RIGHT, OP_INVERT, OP_AND, OP_OR, OP_XOR, OP_2MUL, OP_2DIV, OP_MUL, OP_DIV, OP_MOD, OP_LSHIFT, OP_RSHIFT}
SIG_OPS = {OP_CHECKSIG, OP_CHECKSIGVERIFY, OP_CHECKMULTISIG, OP_CHECKMULTISIGVERIFY}


class ScriptErr(Exception):
    pass


def _fail(code):
    raise ScriptErr(code)


# ------------------------------------------------------------------ CScriptNum
def scriptnum(vch, require_minimal, max_size=4):
    n = len(vch)
    if n > max_size:
        _fail("script number overflow")
    if require_minimal and n > 0:
        # the MSB (excluding the sign bit) must not be zero unless the sign bit of the next byte needs it
        if (vch[n - 1] & 0x7F) == 0:
            if n <= 1 or (vch[n - 2] & 0x80) == 0:
                _fail("non-minimally encoded script number")
    if n == 0:
        return 0
    result = 0
    for i in range(n):
        result = result | (vch[i] << (8 * i))
    if vch[n - 1] & 0x80:
        return -(result & ~(0x80 << (8 * (n - 1))))
    return result


def scriptnum_serialize(value):
    if value == 0:
        return b""
    neg = value < 0
    absvalue = -value if neg else value
    result = []
    while absvalue:
        result.append(absvalue & 0xFF)
        absvalue = absvalue >> 8
    if result[-1] & 0x80:
        result.append(0x80 if neg else 0x00)
    elif neg:
        result[-1] = result[-1] | 0x80
    return bytes(result)


def cast_to_bool(vch):
    n = len(vch)
    for i in range(n):
        if vch[i] != 0:
            # can be negative zero
            if i == n - 1 and vch[i] == 0x80:
                return False
            return True
    return False


def check_minimal_push(data, opcode):
    n = len(data)
    if n == 0:
        return opcode == OP_0
    if n == 1 and data[0] >= 1 and data[0] <= 16:
        return False            # should have used OP_1 .. OP_16
    if n == 1 and data[0] == 0x81:
        return False            # should have used OP_1NEGATE
    if n <= 75:
        return opcode == n
    if n <= 255:
        return opcode == OP_PUSHDATA1
    if n <= 65535:
        return opcode == OP_PUSHDATA2
    return True


# ------------------------------------------------------------------ GetOp
def get_op(script, pc):
    """(opcode, data or None, next pc); raises on a truncated push (SCRIPT_ERR_BAD_OPCODE)."""
    if pc >= len(script):
        _fail("bad opcode")
    opcode = script[pc]
    pc += 1
    if opcode <= OP_PUSHDATA4:
        if opcode < OP_PUSHDATA1:
            size = opcode
        else:
            nb = 1 << (opcode - OP_PUSHDATA1)
            if len(script) - pc < nb:
                _fail("bad opcode")
            size = int.from_bytes(script[pc:pc + nb], "little")
            pc += nb
        if len(script) - pc < size:
            _fail("bad opcode")
        return opcode, script[pc:pc + size], pc + size
    return opcode, None, pc


def _cltv(stack, tx_lock_time, tx_in_sequence, require_minimal):
    if len(stack) < 1:
        _fail("invalid stack operation")
    n = scriptnum(stack[-1], require_minimal, 5)
    if n < 0:
        _fail("negative locktime")
    # CheckLockTime
    if not (sor(sand(tx_lock_time < LOCKTIME_THRESHOLD, n < LOCKTIME_THRESHOLD), sand(tx_lock_time >= LOCKTIME_THRESHOLD, n >= LOCKTIME_THRESHOLD))):
        _fail("unsatisfied locktime")
    if n > tx_lock_time:
        _fail("unsatisfied locktime")
    if tx_in_sequence == SEQUENCE_FINAL:
        _fail("unsatisfied locktime")


def _csv(stack, tx_version, tx_in_sequence, require_minimal):
    if len(stack) < 1:
        _fail("invalid stack operation")
    n = scriptnum(stack[-1], require_minimal, 5)
    if n < 0:
        _fail("negative locktime")
    if (n & SEQUENCE_LOCKTIME_DISABLE_FLAG) != 0:
        return
    # CheckSequence (tx version is compared as unsigned)
    if tx_version < 2:
        _fail("unsatisfied locktime")
    if tx_in_sequence & SEQUENCE_LOCKTIME_DISABLE_FLAG:
        _fail("unsatisfied locktime")
    mask = SEQUENCE_LOCKTIME_TYPE_FLAG | SEQUENCE_LOCKTIME_MASK
    txseq = tx_in_sequence & mask
    nm = n & mask
    if not (sor(sand(txseq < SEQUENCE_LOCKTIME_TYPE_FLAG, nm < SEQUENCE_LOCKTIME_TYPE_FLAG), sand(txseq >= SEQUENCE_LOCKTIME_TYPE_FLAG, nm >= SEQUENCE_LOCKTIME_TYPE_FLAG))):
        _fail("unsatisfied locktime")
    if nm > txseq:
        _fail("unsatisfied locktime")


def eval_script(stack, script, *, minimaldata=False, minimalif=False, discourage_nops=False, cltv=True, csv=True,
                witness_v0=False, hashes=None, tx_lock_time=0, tx_in_sequence=0xFFFFFFFF, tx_version=2, tapscript=False, sigs=None):
    """Run `script` (concrete bytes) on `stack` (list, mutated). Raises ScriptErr on failure.

    `sigs` (pre-tapscript only) supplies what the signature opcodes need from outside the interpreter: an object with
    sig_encoding_ok(sig), key_encoding_ok(key), check(sig, key) and the flags nullfail / nulldummy."""
    unmodelled = (OP_CHECKSIG, OP_CHECKSIGVERIFY, OP_CHECKSIGADD) if tapscript else (() if sigs is not None else SIG_OPS)   # tapscript: CHECKMULTISIG* is a plain failure when executed
    if any(op in unmodelled for op in _opcodes(script)):
        raise NotImplementedError("signature opcodes are outside this reference")
    if not tapscript and len(script) > MAX_SCRIPT_SIZE:
        _fail("script size")
    altstack = []
    vf_exec = []
    op_count = 0
    pc = 0
    while pc < len(script):
        f_exec = all(vf_exec)
        opcode, data, pc = get_op(script, pc)
        if data is not None and len(data) > MAX_SCRIPT_ELEMENT_SIZE:
            _fail("push size")
        if opcode > OP_16 and not tapscript:
            op_count += 1
            if op_count > MAX_OPS_PER_SCRIPT:
                _fail("op count")
        if opcode in DISABLED:
            _fail("disabled opcode")
        if f_exec and opcode <= OP_PUSHDATA4:
            if minimaldata and not check_minimal_push(data, opcode):
                _fail("minimaldata")
            stack.append(data)
        elif f_exec or (OP_IF <= opcode <= OP_ENDIF):
            if opcode == OP_1NEGATE or OP_1 <= opcode <= OP_16:
                stack.append(scriptnum_serialize(opcode - (OP_1 - 1)))
            elif opcode == OP_NOP:
                pass
            elif opcode == OP_CHECKLOCKTIMEVERIFY:
                if cltv:
                    _cltv(stack, tx_lock_time, tx_in_sequence, minimaldata)
            elif opcode == OP_CHECKSEQUENCEVERIFY:
                if csv:
                    _csv(stack, tx_version, tx_in_sequence, minimaldata)
            elif opcode == OP_NOP1 or OP_NOP4 <= opcode <= OP_NOP10:
                if discourage_nops:
                    _fail("discourage upgradable nops")
            elif opcode in (OP_IF, OP_NOTIF):
                value = False
                if f_exec:
                    if len(stack) < 1:
                        _fail("unbalanced conditional")
                    vch = stack[-1]
                    if tapscript or (witness_v0 and minimalif):
                        if len(vch) > 1:
                            _fail("minimalif")
                        if len(vch) == 1 and vch[0] != 1:
                            _fail("minimalif")
                    value = cast_to_bool(vch)
                    if opcode == OP_NOTIF:
                        value = not value
                    stack.pop()
                vf_exec.append(value)
            elif opcode == OP_ELSE:
                if not vf_exec:
                    _fail("unbalanced conditional")
                vf_exec[-1] = not vf_exec[-1]
            elif opcode == OP_ENDIF:
                if not vf_exec:
                    _fail("unbalanced conditional")
                vf_exec.pop()
            elif opcode == OP_VERIFY:
                if len(stack) < 1:
                    _fail("invalid stack operation")
                if cast_to_bool(stack[-1]):
                    stack.pop()
                else:
                    _fail("verify")
            elif opcode == OP_RETURN:
                _fail("op_return")
            elif opcode == OP_TOALTSTACK:
                if len(stack) < 1:
                    _fail("invalid stack operation")
                altstack.append(stack.pop())
            elif opcode == OP_FROMALTSTACK:
                if len(altstack) < 1:
                    _fail("invalid altstack operation")
                stack.append(altstack.pop())
            elif opcode == OP_2DROP:
                if len(stack) < 2:
                    _fail("invalid stack operation")
                stack.pop()
                stack.pop()
            elif opcode == OP_2DUP:
                if len(stack) < 2:
                    _fail("invalid stack operation")
                stack.extend([stack[-2], stack[-1]])
            elif opcode == OP_3DUP:
                if len(stack) < 3:
                    _fail("invalid stack operation")
                stack.extend([stack[-3], stack[-2], stack[-1]])
            elif opcode == OP_2OVER:
                if len(stack) < 4:
                    _fail("invalid stack operation")
                stack.extend([stack[-4], stack[-3]])
            elif opcode == OP_2ROT:
                if len(stack) < 6:
                    _fail("invalid stack operation")
                a, b = stack[-6], stack[-5]
                del stack[-6:-4]
                stack.extend([a, b])
            elif opcode == OP_2SWAP:
                if len(stack) < 4:
                    _fail("invalid stack operation")
                stack[-4], stack[-2] = stack[-2], stack[-4]
                stack[-3], stack[-1] = stack[-1], stack[-3]
            elif opcode == OP_IFDUP:
                if len(stack) < 1:
                    _fail("invalid stack operation")
                if cast_to_bool(stack[-1]):
                    stack.append(stack[-1])
            elif opcode == OP_DEPTH:
                stack.append(scriptnum_serialize(len(stack)))
            elif opcode == OP_DROP:
                if len(stack) < 1:
                    _fail("invalid stack operation")
                stack.pop()
            elif opcode == OP_DUP:
                if len(stack) < 1:
                    _fail("invalid stack operation")
                stack.append(stack[-1])
            elif opcode == OP_NIP:
                if len(stack) < 2:
                    _fail("invalid stack operation")
                del stack[-2]
            elif opcode == OP_OVER:
                if len(stack) < 2:
                    _fail("invalid stack operation")
                stack.append(stack[-2])
            elif opcode in (OP_PICK, OP_ROLL):
                if len(stack) < 2:
                    _fail("invalid stack operation")
                n = scriptnum(stack[-1], minimaldata)
                stack.pop()
                if n < 0 or n >= len(stack):
                    _fail("invalid stack operation")
                from sx.api import concretize
                n = concretize(n)
                vch = stack[-n - 1]
                if opcode == OP_ROLL:
                    del stack[-n - 1]
                stack.append(vch)
            elif opcode == OP_ROT:
                if len(stack) < 3:
                    _fail("invalid stack operation")
                stack[-3], stack[-2] = stack[-2], stack[-3]
                stack[-2], stack[-1] = stack[-1], stack[-2]
            elif opcode == OP_SWAP:
                if len(stack) < 2:
                    _fail("invalid stack operation")
                stack[-2], stack[-1] = stack[-1], stack[-2]
            elif opcode == OP_TUCK:
                if len(stack) < 2:
                    _fail("invalid stack operation")
                stack.insert(len(stack) - 2, stack[-1])
            elif opcode == OP_SIZE:
                if len(stack) < 1:
                    _fail("invalid stack operation")
                stack.append(scriptnum_serialize(len(stack[-1])))
            elif opcode in (OP_EQUAL, OP_EQUALVERIFY):
                if len(stack) < 2:
                    _fail("invalid stack operation")
                a, b = stack[-2], stack[-1]
                equal = (len(a) == len(b)) and bool(a == b)
                stack.pop()
                stack.pop()
                stack.append(b"\x01" if equal else b"")
                if opcode == OP_EQUALVERIFY:
                    if equal:
                        stack.pop()
                    else:
                        _fail("equalverify")
            elif opcode in (OP_1ADD, OP_1SUB, OP_NEGATE, OP_ABS, OP_NOT, OP_0NOTEQUAL):
                if len(stack) < 1:
                    _fail("invalid stack operation")
                bn = scriptnum(stack[-1], minimaldata)
                if opcode == OP_1ADD:
                    bn = bn + 1
                elif opcode == OP_1SUB:
                    bn = bn - 1
                elif opcode == OP_NEGATE:
                    bn = -bn
                elif opcode == OP_ABS:
                    if bn < 0:
                        bn = -bn
                elif opcode == OP_NOT:
                    bn = 1 if bn == 0 else 0
                else:
                    bn = 1 if bn != 0 else 0
                stack.pop()
                stack.append(scriptnum_serialize(bn))
            elif OP_ADD <= opcode <= OP_MAX and opcode not in DISABLED:
                if len(stack) < 2:
                    _fail("invalid stack operation")
                bn1 = scriptnum(stack[-2], minimaldata)
                bn2 = scriptnum(stack[-1], minimaldata)
                if opcode == OP_ADD:
                    bn = bn1 + bn2
                elif opcode == OP_SUB:
                    bn = bn1 - bn2
                elif opcode == OP_BOOLAND:
                    bn = 1 if (bn1 != 0 and bn2 != 0) else 0
                elif opcode == OP_BOOLOR:
                    bn = 1 if (bn1 != 0 or bn2 != 0) else 0
                elif opcode in (OP_NUMEQUAL, OP_NUMEQUALVERIFY):
                    bn = 1 if bn1 == bn2 else 0
                elif opcode == OP_NUMNOTEQUAL:
                    bn = 1 if bn1 != bn2 else 0
                elif opcode == OP_LESSTHAN:
                    bn = 1 if bn1 < bn2 else 0
                elif opcode == OP_GREATERTHAN:
                    bn = 1 if bn1 > bn2 else 0
                elif opcode == OP_LESSTHANOREQUAL:
                    bn = 1 if bn1 <= bn2 else 0
                elif opcode == OP_GREATERTHANOREQUAL:
                    bn = 1 if bn1 >= bn2 else 0
                elif opcode == OP_MIN:
                    bn = bn1 if bn1 < bn2 else bn2
                elif opcode == OP_MAX:
                    bn = bn1 if bn1 > bn2 else bn2
                else:
                    _fail("bad opcode")
                stack.pop()
                stack.pop()
                stack.append(scriptnum_serialize(bn))
                if opcode == OP_NUMEQUALVERIFY:
                    if cast_to_bool(stack[-1]):
                        stack.pop()
                    else:
                        _fail("numequalverify")
            elif opcode == OP_WITHIN:
                if len(stack) < 3:
                    _fail("invalid stack operation")
                bn1 = scriptnum(stack[-3], minimaldata)
                bn2 = scriptnum(stack[-2], minimaldata)
                bn3 = scriptnum(stack[-1], minimaldata)
                value = bn2 <= bn1 and bn1 < bn3
                stack.pop()
                stack.pop()
                stack.pop()
                stack.append(b"\x01" if value else b"")
            elif OP_RIPEMD160 <= opcode <= OP_HASH256:
                if len(stack) < 1:
                    _fail("invalid stack operation")
                vch = stack.pop()
                stack.append(hashes[opcode](vch))
            elif opcode == OP_CODESEPARATOR:
                pass
            elif opcode in (OP_CHECKSIG, OP_CHECKSIGVERIFY) and sigs is not None and not tapscript:
                if len(stack) < 2:
                    _fail("invalid stack operation")
                vch_sig, vch_key = stack[-2], stack[-1]
                # EvalChecksigPreTapscript (FindAndDelete / CONST_SCRIPTCODE left to the caller's checker)
                if not sigs.sig_encoding_ok(vch_sig) or not sigs.key_encoding_ok(vch_key):
                    _fail("signature or public key encoding")
                success = sigs.check(vch_sig, vch_key)
                if not success and sigs.nullfail and len(vch_sig):
                    _fail("nullfail")
                stack.pop()
                stack.pop()
                stack.append(b"\x01" if success else b"")
                if opcode == OP_CHECKSIGVERIFY:
                    if success:
                        stack.pop()
                    else:
                        _fail("checksigverify")
            elif opcode in (OP_CHECKMULTISIG, OP_CHECKMULTISIGVERIFY) and sigs is not None and not tapscript:
                i = 1
                if len(stack) < i:
                    _fail("invalid stack operation")
                n_keys = scriptnum(stack[-i], minimaldata)
                if n_keys < 0 or n_keys > 20:
                    _fail("pubkey count")
                op_count += n_keys
                if op_count > MAX_OPS_PER_SCRIPT:
                    _fail("op count")
                i += 1
                ikey = i
                ikey2 = n_keys + 2
                i += n_keys
                if len(stack) < i:
                    _fail("invalid stack operation")
                n_sigs = scriptnum(stack[-i], minimaldata)
                if n_sigs < 0 or n_sigs > n_keys:
                    _fail("sig count")
                i += 1
                isig = i
                i += n_sigs
                if len(stack) < i:
                    _fail("invalid stack operation")
                success = True
                while success and n_sigs > 0:
                    vch_sig, vch_key = stack[-isig], stack[-ikey]
                    if not sigs.sig_encoding_ok(vch_sig) or not sigs.key_encoding_ok(vch_key):
                        _fail("signature or public key encoding")
                    if sigs.check(vch_sig, vch_key):
                        isig += 1
                        n_sigs -= 1
                    ikey += 1
                    n_keys -= 1
                    if n_sigs > n_keys:
                        success = False
                while i > 1:
                    i -= 1
                    if not success and sigs.nullfail and not ikey2 and len(stack[-1]):
                        _fail("nullfail")
                    if ikey2 > 0:
                        ikey2 -= 1
                    stack.pop()
                if len(stack) < 1:
                    _fail("invalid stack operation")
                if sigs.nulldummy and len(stack[-1]):
                    _fail("nulldummy")
                stack.pop()
                stack.append(b"\x01" if success else b"")
                if opcode == OP_CHECKMULTISIGVERIFY:
                    if success:
                        stack.pop()
                    else:
                        _fail("checkmultisigverify")
            else:
                _fail("bad opcode")
        if len(stack) + len(altstack) > MAX_STACK_SIZE:
            _fail("stack size")
    if vf_exec:
        _fail("unbalanced conditional")


def _opcodes(script):
    out = []
    pc = 0
    try:
        while pc < len(script):
            op, data, pc = get_op(script, pc)
            out.append(op)
    except ScriptErr:
        pass
    return out


# ------------------------------------------------------------------ ExecuteWitnessScript, SigVersion::TAPSCRIPT
def is_op_success(opcode):
    return (opcode == 80 or opcode == 98 or 126 <= opcode <= 129 or 131 <= opcode <= 134 or 137 <= opcode <= 138
            or 141 <= opcode <= 142 or 149 <= opcode <= 153 or 187 <= opcode <= 254)


def execute_tapscript(stack, script, *, discourage_op_success=False, **evkw):
    """BIP342 / Core's VerifyWitnessProgram tapscript arm after the commitment check: the OP_SUCCESSx pre-scan, the
    initial stack limits, EvalScript under SigVersion::TAPSCRIPT and the final exactly-one-true-element rule."""
    pc = 0
    while pc < len(script):
        opcode, data, pc = get_op(script, pc)      # a truncated push before any OP_SUCCESSx: SCRIPT_ERR_BAD_OPCODE
        if is_op_success(opcode):
            if discourage_op_success:
                _fail("discourage op_success")
            return
    if len(stack) > MAX_STACK_SIZE:
        _fail("stack size")
    for elem in stack:
        if len(elem) > MAX_SCRIPT_ELEMENT_SIZE:
            _fail("push size")
    eval_script(stack, script, tapscript=True, **evkw)
    if len(stack) != 1:
        _fail("cleanstack")
    if not cast_to_bool(stack[-1]):
        _fail("eval false")


# ------------------------------------------------------------------ VerifyScript / VerifyWitnessProgram (signature-free scripts)
def is_push_only(script):
    pc = 0
    while pc < len(script):
        try:
            op, data, pc = get_op(script, pc)
        except ScriptErr:
            return False
        if op > OP_16:
            return False
    return True


def witness_program(script):
    """(version, program) if script is a witness program, else None (CScript::IsWitnessProgram)."""
    n = len(script)
    if n < 4 or n > 42:
        return None
    if script[0] != OP_0 and (script[0] < OP_1 or script[0] > OP_16):
        return None
    if script[1] + 2 == n:
        return (0 if script[0] == 0 else script[0] - 0x50), script[2:]
    return None


def is_p2sh(script):
    return len(script) == 23 and script[0] == 0xA9 and script[1] == 0x14 and script[22] == 0x87


def push_of(data):
    """CScript() << data (minimal push of a byte vector, as operator<< builds it)."""
    n = len(data)
    if n < OP_PUSHDATA1:
        return bytes([n]) + data
    if n <= 0xFF:
        return bytes([OP_PUSHDATA1, n]) + data
    if n <= 0xFFFF:
        return bytes([OP_PUSHDATA2]) + n.to_bytes(2, "little") + data
    return bytes([OP_PUSHDATA4]) + n.to_bytes(4, "little") + data


def verify_witness_program(witness, version, program, flags, is_p2sh_wrapped, sha256, ev):
    if version == 0:
        if len(program) == 32:
            if len(witness) == 0:
                _fail("witness program witness empty")
            script = witness[-1]
            if bool(sha256(script) != program):
                _fail("witness program mismatch")
            stack = list(witness[:-1])
            for el in stack:
                if len(el) > MAX_SCRIPT_ELEMENT_SIZE:
                    _fail("push size")
            ev(stack, script, True)
            if len(stack) != 1:
                _fail("cleanstack")
            if not cast_to_bool(stack[-1]):
                _fail("eval false")
            return
        if len(program) == 20:
            # BIP141 P2WPKH: exactly two witness items, run DUP HASH160 <program> EQUALVERIFY CHECKSIG (needs evkw["sigs"])
            if len(witness) != 2:
                _fail("witness program mismatch")
            stack = list(witness)
            for el in stack:
                if len(el) > MAX_SCRIPT_ELEMENT_SIZE:
                    _fail("push size")
            ev(stack, bytes([OP_DUP, OP_HASH160, 20]) + bytes(program) + bytes([OP_EQUALVERIFY, OP_CHECKSIG]), True)
            if len(stack) != 1:
                _fail("cleanstack")
            if not cast_to_bool(stack[-1]):
                _fail("eval false")
            return
        _fail("witness program wrong length")
    if version == 1 and len(program) == 32 and not is_p2sh_wrapped:
        if "TAPROOT" in flags:
            raise NotImplementedError("taproot needs a signature check / tweak check")
        return
    if not is_p2sh_wrapped and version == 1 and bytes(program) == b"\x4e\x73":
        return                          # pay-to-anchor
    if "DISCOURAGE_UPGRADABLE_WITNESS_PROGRAM" in flags:
        _fail("discourage upgradable witness program")


def verify_script(script_sig, script_pub_key, witness, flags, sha256, **evkw):
    """Core's VerifyScript for scripts without signature opcodes. flags: set of flag names. Raises ScriptErr."""
    def ev(stack, script, witness_v0=False):
        eval_script(stack, script, minimaldata="MINIMALDATA" in flags, minimalif="MINIMALIF" in flags,
                    discourage_nops="DISCOURAGE_UPGRADABLE_NOPS" in flags, witness_v0=witness_v0, **evkw)
    if "SIGPUSHONLY" in flags and not is_push_only(script_sig):
        _fail("sig pushonly")
    stack = []
    ev(stack, script_sig)
    stack_copy = list(stack) if "P2SH" in flags else None
    ev(stack, script_pub_key)
    if not stack:
        _fail("eval false")
    if not cast_to_bool(stack[-1]):
        _fail("eval false")
    had_witness = False
    if "WITNESS" in flags:
        wp = witness_program(script_pub_key)
        if wp is not None:
            had_witness = True
            if len(script_sig) != 0:
                _fail("witness malleated")
            verify_witness_program(witness, wp[0], wp[1], flags, False, sha256, ev)
            stack = stack[:1]
    if "P2SH" in flags and is_p2sh(script_pub_key):
        if not is_push_only(script_sig):
            _fail("sig pushonly")
        stack = stack_copy
        pub_key2 = stack.pop()
        ev(stack, pub_key2)
        if not stack:
            _fail("eval false")
        if not cast_to_bool(stack[-1]):
            _fail("eval false")
        if "WITNESS" in flags:
            wp = witness_program(pub_key2)
            if wp is not None:
                had_witness = True
                if len(script_sig) != len(push_of(pub_key2)) or bool(script_sig != push_of(pub_key2)):
                    _fail("witness malleated p2sh")
                verify_witness_program(witness, wp[0], wp[1], flags, True, sha256, ev)
                stack = stack[:1]
    if "CLEANSTACK" in flags:
        if len(stack) != 1:
            _fail("cleanstack")
    if "WITNESS" in flags:
        if not had_witness and len(witness) != 0:
            _fail("witness unexpected")
