"""Transcription of Bitcoin Core's arith_uint256::SetCompact / GetCompact, GetBlockProof and
CalculateNextWorkRequired (src/arith_uint256.cpp, src/chain.cpp, src/pow.cpp), over unbounded ints.

Written with plain integer operators only, so it runs on concrete ints and on the
engine's symbolic ints alike. Validated against the repo's own vectors at set-up.
"""
from sx.api import ite, sand, sor, snot

M256 = (1 << 256) - 1


def set_compact(n):
    """n: uint32 -> (value mod 2^256, negative, overflow)."""
    size = n >> 24
    word = n & 0x007FFFFF
    # size <= 3: word >>= 8*(3-size); else value = word << 8*(size-3) (in 256-bit arithmetic)
    small = word >> (8 * ite(size <= 3, 3 - size, 0))
    big = (word << (8 * ite(size > 3, size - 3, 0))) & M256
    value = ite(size <= 3, small, big)
    word_eff = ite(size <= 3, small, word)
    negative = sand(word_eff != 0, (n & 0x00800000) != 0)
    overflow = sand(word_eff != 0, sor(size > 34, sand(word_eff > 0xFF, size > 33), sand(word_eff > 0xFFFF, size > 32)))
    return value, negative, overflow


def get_compact(value, negative=False):
    """value: uint256 -> uint32 compact (Core's GetCompact)."""
    size = (value.bit_length() + 7) // 8
    comp_small = (value & 0xFFFFFFFFFFFFFFFF) << (8 * ite(size <= 3, 3 - size, 0))
    comp_big = (value >> (8 * ite(size > 3, size - 3, 0))) & 0xFFFFFFFFFFFFFFFF
    compact = ite(size <= 3, comp_small, comp_big)
    bump = (compact & 0x00800000) != 0
    compact = ite(bump, compact >> 8, compact)
    size = ite(bump, size + 1, size)
    compact = compact | (size << 24)
    compact = compact | ite(sand(negative, (compact & 0x007FFFFF) != 0), 0x00800000, 0)
    return compact


def block_proof(target):
    """GetBlockProof for a non-zero, valid target: (~t / (t+1)) + 1 in 256-bit arithmetic."""
    return ((M256 - target) // (target + 1)) + 1


TIMESPAN = 14 * 24 * 60 * 60


def next_work(old_compact, timespan, pow_limit_compact):
    """CalculateNextWorkRequired (no-retarget flag off)."""
    ts = ite(timespan < TIMESPAN // 4, TIMESPAN // 4, timespan)
    ts = ite(ts > TIMESPAN * 4, TIMESPAN * 4, ts)
    old, _, _ = set_compact(old_compact)
    new = (old * ts) & M256
    new = new // TIMESPAN
    limit, _, _ = set_compact(pow_limit_compact)
    new = ite(new > limit, limit, new)
    return get_compact(new)
