"""BIP173 / BIP350 reference decoder (transcribed from the BIPs' Python reference), written over lists of code points so
that it runs on concrete text and on the engine's symbolic text alike."""
from sx.api import ite, sand, sor, snot

CHARSET = "qpzry9x8gf2tvdw0s3jn54khce6mua7l"
BECH32_CONST = 1
BECH32M_CONST = 0x2BC830A3
GEN = [0x3B6A57B2, 0x26508E6D, 0x1EA119FA, 0x3D4233DD, 0x2A1462B3]


def polymod(values):
    chk = 1
    for v in values:
        b = chk >> 25
        chk = ((chk & 0x1FFFFFF) << 5) ^ v
        for i in range(5):
            chk = chk ^ ite(((b >> i) & 1) == 1, GEN[i], 0)
    return chk


def hrp_expand(hrp_codes):
    return [c >> 5 for c in hrp_codes] + [0] + [c & 31 for c in hrp_codes]


_INDEX = {ord(ch): i for i, ch in enumerate(CHARSET)}


def charset_index(c):
    """Index of code point c in CHARSET, -1 if absent."""
    return _INDEX.get(c, -1)


def lower(c):
    dom = getattr(c, "dom", None)
    if dom is not None and not any(65 <= v <= 90 for v in dom):
        return c
    return ite(sand(c >= 65, c <= 90), c + 32, c)


def convertbits_5_to_8(data):
    """convertbits(data, 5, 8, False): None if the padding is more than 4 bits or non-zero."""
    acc = 0
    bits = 0
    ret = []
    for v in data:
        acc = ((acc << 5) | v) & 0xFFF
        bits += 5
        while bits >= 8:
            bits -= 8
            ret.append((acc >> bits) & 0xFF)
    if bits >= 5:
        return None
    if bool(((acc << (8 - bits)) & 0xFF) != 0):
        return None
    return ret


def decode_segwit_address(hrp, codes):
    """(witver, program bytes list) or None. `codes` = code points of the candidate address; hrp = expected (lowercase) hrp."""
    n = len(codes)
    if n > 90:
        return None
    if bool(sor(*[sor(c < 33, c > 126) for c in codes])):
        return None
    has_lower = sor(*[sand(c >= 97, c <= 122) for c in codes])
    has_upper = sor(*[sand(c >= 65, c <= 90) for c in codes])
    if bool(sand(has_lower, has_upper)):
        return None
    low = [lower(c) for c in codes]
    # position of the last '1'
    pos = -1
    for i in range(n):
        pos = ite(low[i] == ord("1"), i, pos)
    from sx.api import concretize
    pos = concretize(pos)
    if pos < 1 or pos + 7 > n:
        return None
    data = [charset_index(c) for c in low[pos + 1:]]
    if bool(sor(*[d < 0 for d in data])):
        return None
    hrp_codes = low[:pos]
    chk = polymod(hrp_expand(hrp_codes) + data)
    if len(hrp_codes) != len(hrp) or bool(snot(sand(*[a == ord(b) for a, b in zip(hrp_codes, hrp)]))):
        return None
    payload = data[:-6]
    if len(payload) < 1:
        return None
    prog = convertbits_5_to_8(payload[1:])
    if prog is None or len(prog) < 2 or len(prog) > 40:
        return None
    ver = payload[0]
    if bool(ver > 16):
        return None
    if bool(sand(ver == 0, len(prog) != 20, len(prog) != 32)):
        return None
    if bool(ver == 0):
        if bool(chk != BECH32_CONST):
            return None
    elif bool(chk != BECH32M_CONST):
        return None
    return ver, prog
