#!/bin/bash
# kill every vf runner / worker process (never run pkill -f from an interactive tool shell)
for pat in "sx[.]runner" "sx[.]jobworker" "sx[.]worker"; do
  for p in $(pgrep -f "$pat"); do kill -9 "$p" 2>/dev/null; done
done
exit 0
