#!/usr/bin/env python3
"""Regenerate /verif/MANIFEST.json from tools/manifest_table.json (claimed checks + not_applicable)."""
import json, os
ROOT = os.path.dirname(os.path.dirname(os.path.abspath(__file__)))
T = json.load(open(os.path.join(ROOT, "tools", "manifest_table.json")))
props = [json.loads(l)["id"] for l in open(os.path.join(ROOT, "properties.jsonl"))]
checks, na = [], []
for pid in props:
    e = T["properties"].get(pid, {})
    if e.get("claimed"):
        checks.append(dict(
            property_id=pid,
            quick_cmd=f"./vf check {pid} --tier quick",
            thorough_cmd=f"./vf check {pid} --tier thorough",
            evidence_file=f"/verif/evidence/{pid}.json",
            replay_cmd_template="./vf replay {path}",
            engine="sx",
            level_claimed=dict(category="model_checking", text=e["text"], design_ref=e.get("design_ref", "DESIGN.md §4 " + pid)),
            level_note=e["note"],
            technique=e.get("technique", "bounded symbolic execution of the instrumented btclib source; z3 (QF_BV) decides path-condition AND NOT claim on every path; counterexamples replayed on the plain library"),
        ))
    else:
        na.append(dict(property_id=pid, reason=e.get("reason", "no solver-based check built yet for this property in the current state of /verif")))
M = dict(
    version=1,
    setup_cmd="./vf setup",
    hooks=dict(guard="BTCLIB_ORG_BTCLIB_VERIF", enable="none needed: btclib's source is instrumented in memory by an import hook inside the checking process (sx/instr.py); no file of /repo is changed",
               baseline_off_cmd="cd /repo && /venv/bin/python -m pytest -ra -q -p no:cacheprovider --timeout=900 --continue-on-collection-errors",
               source_commits=T.get("hook_commits", []), add_only=True),
    engines=[dict(name="sx", path="/verif/sx", serves_properties=[c["property_id"] for c in checks],
                  kind_free_text="dynamic symbolic executor for Python written for this repository: AST instrumentation of btclib at import, exact-integer bit-vector proxies, decision-replay path exploration, z3 as the deciding solver, per-path concrete cross-validation and counterexample replay against the uninstrumented library")],
    checks=checks,
    notes=T.get("notes", ""),
    not_applicable=na,
)
json.dump(M, open(os.path.join(ROOT, "MANIFEST.json"), "w"), indent=1)
print("claimed:", [c["property_id"] for c in checks], "n/a:", [n["property_id"] for n in na])
