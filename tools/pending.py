import sys, re, json, subprocess
sys.path.insert(0, '/verif')
from sx import runner
prop, tier, log = sys.argv[1], sys.argv[2], sys.argv[3]
inst = runner.list_instances(prop, tier)
done = set()
for l in open(log):
    m = re.match(r"\s*\[\d+/\d+\] (\S+) (\{.*?\}) ->", l)
    if m: done.add((m.group(1), m.group(2)))
for i in inst:
    if (i["ob"], json.dumps(i["params"])[:80]) not in done: print(i["ob"], i["params"])
