#!/usr/bin/env python3
"""Build /verif/seeded/<Cxx>-<n>/ (patch.diff, demo.py, meta.json) and /verif/seeded/INDEX.md from the sub-agents' deliveries in
/verif/seeded/_incoming/<Cxx>/ (mutantN.diff, demoN.py, notes.md), the confirmation record (verify.json, tools/verify_seeds.py) and the
detection record (detect.json, tools/detect_seeds.py). Only confirmed changes are kept."""
import glob, json, os, re, shutil

ROOT = "/verif/seeded"
# why a confirmed change is caught by no check: each falls in a declared "outside" of its property (DESIGN.md section 4)
REASONS = {
    "C03-2": "outside: batch verification (the obligation did not terminate on the smallest curve)",
    "C06-3": "outside: BIP21 text (urllib / regex on symbolic text)",
    "C13-2": "outside: Electrum NFKD / case folding (Unicode text)",
    "C18-2": "outside: Decimal arithmetic (C code the engine cannot enter)",
    "C18-5": "outside: psbt_size estimate tables (the signed size needs real signatures)",
    "C19-1": "outside: descriptor text parser / recursion depth",
    "C20-3": "outside: thread interleavings",
    "C07-6": "outside: SLIP132 version tables (a concrete table, nothing for a solver to decide)",
}


def sections(notes):
    """Split notes.md into per-mutant sections keyed by number."""
    out = {}
    cur = None
    for line in notes.splitlines():
        m = re.match(r"^#{2,3}\s*(?:Mutant|mutant|M)\s*(\d)\b(.*)", line)
        if m:
            cur = m.group(1)
            out[cur] = dict(title=m.group(2).strip(" -—:`").strip(), body=[])
        elif cur:
            out[cur]["body"].append(line)
    return out


def field(body, *names):
    text = "\n".join(body)
    for n in names:
        m = re.search(r"\*\*?\s*%s[^\n:]*:?\*?\*?:?\s*(.+?)(?:\n\s*\n|\n\*|\n-\s|\Z)" % n, text, re.S | re.I)
        if m:
            return re.sub(r"\s+", " ", m.group(1)).strip()[:700]
    return ""


def main():
    rows = []
    for d, off in [(d, off) for inc, off in (("_incoming", 0), ("_incoming2", 3)) for d in sorted(glob.glob(ROOT + f"/{inc}/C*"))]:
        pid = os.path.basename(d)
        ver = json.load(open(d + "/verify.json")) if os.path.exists(d + "/verify.json") else {"mutants": {}}
        det = json.load(open(d + "/detect.json")) if os.path.exists(d + "/detect.json") else {"mutants": {}}
        secs = sections(open(d + "/notes.md").read()) if os.path.exists(d + "/notes.md") else {}
        for diff in sorted(glob.glob(d + "/mutant*.diff")):
            k = re.search(r"mutant(\d+)", diff).group(1)
            kk = str(int(k) + off)       # second-round deliveries are numbered after the first round's
            v = ver["mutants"].get(k, {})
            if not v.get("confirmed"):
                continue
            dt = det["mutants"].get(k, {})
            sec = secs.get(k, dict(title="", body=[]))
            files = sorted(set(re.findall(r"^\+\+\+ b/(\S+)", open(diff).read(), re.M)))
            out = f"{ROOT}/{pid}-{kk}"
            os.makedirs(out, exist_ok=True)
            shutil.copy(diff, out + "/patch.diff")
            if os.path.exists(f"{d}/demo{k}.py"):
                shutil.copy(f"{d}/demo{k}.py", out + "/demo.py")
            caught_by = []
            for r in dt.get("runs", []):
                if r["rc"] == 1:
                    caught_by.append(dict(check=f"./vf check {r['prop']} --tier quick", obligations=r["obligations"], first=r.get("first"), wall_s=r.get("wall")))
            meta = dict(
                property=pid, seed=f"{pid}-{kk}", round=1 if not off else 2, title=sec["title"] or files and files[0], files=files,
                what_it_breaks=field(sec["body"], "What it breaks", "Breaks", "Property clause"),
                needs_to_manifest=field(sec["body"], "What is needed to see it", "What is needed", "Needs", "To manifest", "Why the suite"),
                apply="git -C /repo apply /verif/seeded/%s-%s/patch.diff" % (pid, kk), undo="git -C /repo checkout -- .",
                demonstration="PYTHONPATH=/repo BTCLIB_NO_LIBSECP256K1=1 /venv/bin/python /verif/seeded/%s-%s/demo.py  (exit 0 on the unchanged tree, 1 with the change)" % (pid, kk),
                confirmed=dict(how="tools/verify_seeds.py in a scratch worktree (removed afterwards): git apply; demo on clean and on changed tree; full pytest suite", at_commit=ver.get("repo_head"),
                               demo_clean_rc=v.get("demo_clean_rc"), demo_changed_rc=v.get("demo_mutant_rc"), suite_passed=v.get("suite", {}).get("passed"),
                               suite_new_failures=v.get("suite", {}).get("new_failures"), demo_tail=(v.get("demo_mutant_tail") or "")[-300:]),
                detection=dict(how="tools/detect_seeds.py: patch applied to a scratch worktree of /repo HEAD, quick checks run against it (VERIF_REPO), worktree removed", at_commit=det.get("repo_head"),
                               applies_on_head=dt.get("applies"), apply_mode=dt.get("how"), caught=bool(dt.get("caught")), caught_by=caught_by,
                               runs=[dict(check=r["prop"], exit=r["rc"], violations=r["violations"], inconclusive=r["inconclusive"], wall_s=r["wall"]) for r in dt.get("runs", [])],
                               note=dt.get("apply_error")))
            json.dump(meta, open(out + "/meta.json", "w"), indent=1)
            rows.append(meta)
    rows.sort(key=lambda m: (m["property"], int(m["seed"].split("-")[1])))
    lines = ["# Seeded changes and which check catches them", "",
             "Generated by `tools/curate_seeds.py` from the per-seed `meta.json`. Apply with `git -C /repo apply /verif/seeded/<id>/patch.diff`, undo with `git -C /repo checkout -- .`.",
             "Every change listed compiles, passes the repository's unedited test suite (no new failure) and makes its demonstration fail. Seeds 1-3 of a property are the first round, 4-6 later rounds (fresh sub-agents told to avoid the most obvious site).", "",
             "| seed | file | change | caught by quick check | obligations reporting |", "|---|---|---|---|---|"]
    for m in rows:
        det = m["detection"]
        if det["applies_on_head"] is False:
            how = "does not apply on the repaired tree (the code it changes was rewritten by a fix: commit)"
            obs = ""
        elif det["caught"]:
            how = ", ".join(c["check"].replace("./vf check ", "").replace(" --tier quick", "") for c in det["caught_by"])
            obs = ", ".join(sorted({o for c in det["caught_by"] for o in c["obligations"]}))[:160]
        elif det["runs"]:
            how = "**missed**"
            obs = REASONS.get(m["seed"], "")
        else:
            how = "not run"
            obs = ""
        lines.append(f"| {m['seed']} | {', '.join(m['files'])[:60]} | {str(m['title'])[:110]} | {how} | {obs} |")
    n = len(rows)
    c = sum(1 for m in rows if m["detection"]["caught"])
    na = sum(1 for m in rows if m["detection"]["applies_on_head"] is False)
    lines += ["", f"{n} confirmed changes; {c} caught by a quick check; {na} no longer apply; {n - c - na} missed.", ""]
    open(ROOT + "/INDEX.md", "w").write("\n".join(lines))
    print(lines[-2])


if __name__ == "__main__":
    main()
