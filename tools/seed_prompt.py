#!/usr/bin/env python3
"""Write the self-contained prompt given to a mutation-seeding sub-agent (property text + scratch worktree only; nothing from /verif)."""
import json, sys, os
ROOT = os.path.dirname(os.path.dirname(os.path.abspath(__file__)))
props = {json.loads(l)['id']: json.loads(l) for l in open(os.path.join(ROOT, 'properties.jsonl'))}
T = '''You are helping evaluate a verification effort for the open-source Python library btclib (pure-Python Bitcoin cryptography library). You are given ONE semantic property of the library and your own scratch git worktree of the repository. Your job: produce realistic code changes ("seeded defects") to the library that BREAK the property while the library still imports and the existing test suite still passes -- the kind of subtle regression a real contributor could introduce and code review plus the suite would miss.

PROPERTY {id}: {title}
Statement: {statement}
Quantifier: {qtext}
Why tests can't settle it: {why}
Code anchors: {anchors}

YOUR WORKTREE: {wt}  (a git worktree of the repository; work ONLY inside it and inside the output directory {out}; never touch /repo or /verif, and do not read anything under /verif).

How to run things:
- Python is /venv/bin/python. ALWAYS run with your worktree on the path so your copy of the library is the one imported: `cd {wt} && PYTHONPATH={wt} /venv/bin/python ...` and check `import btclib; print(btclib.__file__)` points into {wt}.
- The compiled libsecp256k1 bindings are used for secp256k1 by default; set env BTCLIB_NO_LIBSECP256K1=1 to force the pure-Python arithmetic (your demonstration may use either; say which; a defect that shows with BTCLIB_NO_LIBSECP256K1=1 is preferred).
- Test suite: `cd {wt} && PYTHONPATH={wt} /venv/bin/python -m pytest -q -p no:cacheprovider -n 6 --timeout=900 --continue-on-collection-errors` (a few minutes). On the UNCHANGED tree this reports: 3 failed (tests/imports_test.py::test_the_codec_does_not_pay_for_the_rpc_package, tests/block/block_test.py::test_dataclasses_json_dict, tests/keyword_only_test.py::test_the_recorded_surface_is_the_whole_of_it -- environment artifacts), 18530 passed, 11 skipped, and collection errors for four test modules that load an empty vendored data file. A change "passes the existing tests" if it introduces no NEW failures or errors relative to that baseline. No network is available; nothing can be installed. NEVER use pkill/killall (other agents share this machine): stop only processes you started, by PID.

What to produce: TWO or THREE DIFFERENT seeded defects, each:
1. a small source change under {wt}/btclib/ (not tests) that violates the property for SOME inputs/histories but needs something SPECIFIC to manifest -- e.g. an unusual input (boundary value, rare bit pattern, specific length, a value above/below a threshold, a parity or sign case), a multi-step sequence of operations, or two cooperating sites that each look fine alone. NOT something ordinary use or the existing tests expose at once. Prefer sites in different functions/files for the different defects, and different *kinds* of bug (off-by-one in a bound, wrong comparison operator, dropped check, swapped byte order on a rare branch, missing normalisation, wrong constant on a rare path, etc.).
2. still compiles/imports and the existing test suite has no new failures (you must actually run the full suite with the change applied and confirm).
3. a demonstration: a small standalone Python script (plain asserts; exit code non-zero on failure) that FAILS with the change applied and PASSES on the unchanged tree. Run it both ways and confirm.

Deliverables, written into {out}/ :
- mutant1.diff, mutant2.diff, (mutant3.diff): `git -C {wt} diff` output for each defect ALONE against the unchanged tree (apply one at a time; `git -C {wt} checkout -- .` between them so the diffs are independent).
- demo1.py, demo2.py, (demo3.py): runnable as `PYTHONPATH=<tree> /venv/bin/python demoN.py`.
- notes.md: for each defect: which file/function, what it breaks in terms of the property, what specific input/sequence is needed to see it, and the exact commands you ran with their results (suite result with the change, demo on both trees).
Leave the worktree clean (`git -C {wt} checkout -- .`) at the end. Do not commit anything. Finish with a brief summary of the defects you produced.'''
for pid in sys.argv[1:]:
    p = props[pid]
    out = f'/tmp/seed_{pid}'
    os.makedirs(out, exist_ok=True)
    s = T.format(id=pid, title=p['title'], statement=p['statement'], qtext=p['quantifier']['text'], why=p['why_tests_cant'], anchors=json.dumps(p['anchors']), wt=f'/tmp/wt_{pid}', out=out)
    open(f'{out}/PROMPT.txt', 'w').write(s)
    print(pid, len(s))
