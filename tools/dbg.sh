#!/bin/bash
# debug one obligation instance: tools/dbg.sh harness.c05_wire C05 ob_name '{"cls": "in", ...}'
cd "$(dirname "$0")/.."
export PYTHONPATH=/repo:/verif BTCLIB_NO_LIBSECP256K1=1
echo "{\"module\": \"$1\", \"prop\": \"$2\", \"ob\": \"$3\", \"params\": $4, \"cfg\": {}}" | .venv/bin/python -m sx.jobworker 2>/tmp/dbg.err | .venv/bin/python -c '
import json,sys
d=json.loads(sys.stdin.read())
for k in ("status","paths","ok_paths","exc_paths","error","unsupported","unknown","mismatches"):
    print(k, "=", str(d.get(k))[:3000])
for c in d.get("cex",[])[:4]:
    print("CEX", json.dumps({k:v for k,v in c.items() if k not in ("uf",)}, default=str)[:2500])
'
