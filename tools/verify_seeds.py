#!/usr/bin/env python3
"""Confirm every incoming seeded defect in a scratch worktree of /repo (outside /repo and /verif):
the diff applies, the demonstration passes on the unchanged tree and fails with the change, and the full test suite
shows no new failure relative to the unchanged tree. Writes /verif/seeded/_incoming/<id>/verify.json."""
import glob, json, os, re, subprocess, sys, time

WT = "/tmp/wt_verify"
PY = "/venv/bin/python"
INC = os.environ.get("SEED_INCOMING", "_incoming")


def sh(cmd, cwd=None, env=None, timeout=1800):
    e = dict(os.environ)
    e.update(env or {})
    p = subprocess.run(cmd, shell=True, cwd=cwd, env=e, capture_output=True, text=True, timeout=timeout)
    return p.returncode, p.stdout + p.stderr


def suite():
    rc, out = sh(f"{PY} -m pytest -q -p no:cacheprovider -n 8 --timeout=900 --continue-on-collection-errors 2>&1 | tail -n 80", cwd=WT, env={"PYTHONPATH": WT})
    failed = sorted(set(re.findall(r"^FAILED (\S+)", out, re.M)))
    errors = sorted(set(re.findall(r"^ERROR (\S+)", out, re.M)))
    m = re.search(r"(\d+) passed", out)
    return dict(failed=failed, errors=errors, passed=int(m.group(1)) if m else None)


def main():
    only = sys.argv[1:]
    sh(f"git -C /repo worktree remove --force {WT}")
    sh(f"git -C /repo worktree add --detach {WT} HEAD")
    base = suite()
    print("baseline", base["passed"], base["failed"], flush=True)
    for d in sorted(glob.glob(f"/verif/seeded/{INC}/C*")):
        pid = os.path.basename(d)
        if only and pid not in only:
            continue
        res = {}
        for diff in sorted(glob.glob(d + "/mutant*.diff")):
            k = re.search(r"mutant(\d+)", diff).group(1)
            demo = f"{d}/demo{k}.py"
            r = dict(diff=os.path.basename(diff))
            sh("git checkout -- . && git clean -fdq", cwd=WT)
            rc, out = sh(f"git apply --check {diff}", cwd=WT)
            r["applies"] = rc == 0
            if rc:
                r["apply_error"] = out[-300:]
                res[k] = r
                print(pid, k, "does not apply", flush=True)
                continue
            env = {"PYTHONPATH": WT}
            rc0, out0 = sh(f"{PY} {demo}", cwd=WT, env=env, timeout=900)
            sh(f"git apply {diff}", cwd=WT)
            rc1, out1 = sh(f"{PY} {demo}", cwd=WT, env=env, timeout=900)
            r["demo_clean_rc"], r["demo_mutant_rc"] = rc0, rc1
            r["demo_mutant_tail"] = out1[-400:]
            s = suite()
            r["suite"] = dict(passed=s["passed"], new_failures=[f for f in s["failed"] if f not in base["failed"]], new_errors=[e for e in s["errors"] if e not in base["errors"]])
            r["confirmed"] = rc0 == 0 and rc1 != 0 and not r["suite"]["new_failures"] and not r["suite"]["new_errors"] and s["passed"] == base["passed"]
            res[k] = r
            print(pid, k, "confirmed" if r["confirmed"] else "NOT confirmed", rc0, rc1, r["suite"], flush=True)
        json.dump(dict(baseline=base, mutants=res, verified_at=time.strftime("%Y-%m-%d %H:%M"), repo_head=sh("git -C /repo log --format=%h -1")[1].strip()), open(d + "/verify.json", "w"), indent=1)
    sh("git checkout -- . ", cwd=WT)
    sh(f"git -C /repo worktree remove --force {WT}")


if __name__ == "__main__":
    main()
