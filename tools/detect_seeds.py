#!/usr/bin/env python3
"""For every incoming seeded change: apply it to a scratch worktree of /repo's HEAD (outside /repo and /verif), run the quick
check of its property (and of the extra properties given as PID:EXTRA,...) against that worktree with evidence and replays redirected to a
scratch directory, and record exit code and the obligations that reported a violation in /verif/seeded/_incoming/<id>/detect.json."""
import glob, json, os, re, subprocess, sys, time

INC = os.environ.get("SEED_INCOMING", "_incoming")
WT = "/tmp/wt_detect" + ("2" if INC != "_incoming" else "")
OUT = "/tmp/detect_out"
EXTRA = {"C07": ["C13"], "C08": ["C12"], "C12": ["C08", "C14"], "C19": ["C09", "C05", "C03"], "C10": ["C15", "C08", "C09"], "C15": ["C08"], "C18": ["C05"], "C05": ["C19"]}


def sh(cmd, cwd=None, env=None, timeout=3600):
    e = dict(os.environ)
    e.update(env or {})
    p = subprocess.run(cmd, shell=True, cwd=cwd, env=e, capture_output=True, text=True, timeout=timeout)
    return p.returncode, p.stdout + p.stderr


def run_check(prop, j):
    t0 = time.time()
    rc, out = sh(f"/verif/vf check {prop} --tier quick -j {j}", cwd="/verif", env={"VERIF_REPO": WT, "VERIF_OUT": OUT})
    obs = sorted(set(re.findall(r"obligation=(\S+)", out)))
    inc = sorted(set(re.findall(r"^INCONCLUSIVE \S+ (\S+)", out, re.M)))
    first = re.search(r"obligation=.*", out)
    return dict(prop=prop, rc=rc, violations=len(re.findall(r"^VIOLATION", out, re.M)), obligations=obs, inconclusive=inc, first=(first.group(0)[:400] if first else None), wall=round(time.time() - t0, 1))


def main():
    j = int(os.environ.get("J", "8"))
    only = sys.argv[1:]
    sh(f"git -C /repo worktree remove --force {WT}")
    sh(f"git -C /repo worktree add --detach {WT} HEAD")
    head = sh("git -C /repo log --format=%h -1")[1].strip()
    for d in sorted(glob.glob(f"/verif/seeded/{INC}/C*")):
        pid = os.path.basename(d)
        if only and pid not in only:
            continue
        res = {}
        if os.path.exists(d + "/detect.json"):
            old = json.load(open(d + "/detect.json"))
            if old.get("repo_head") == head and not os.environ.get("FORCE"):
                res = old["mutants"]
        for diff in sorted(glob.glob(d + "/mutant*.diff")):
            k = re.search(r"mutant(\d+)", diff).group(1)
            if k in res:
                continue
            sh("git checkout -- . && git clean -fdq", cwd=WT)
            rc, out = sh(f"git apply --check {diff}", cwd=WT)
            how = "git apply"
            if rc:
                rc, out = sh(f"git apply --3way {diff}", cwd=WT)
                how = "git apply --3way"
                if rc:
                    sh("git checkout -- . && git clean -fdq && git reset -q --hard", cwd=WT)
                    res[k] = dict(applies=False, apply_error=out[-300:])
                    print(pid, k, "does not apply on", head, flush=True)
                    continue
            else:
                sh(f"git apply {diff}", cwd=WT)
            runs = [run_check(pid, j)]
            if runs[0]["rc"] != 1:
                for extra in EXTRA.get(pid, []):
                    runs.append(run_check(extra, j))
                    if runs[-1]["rc"] == 1:
                        break
            res[k] = dict(applies=True, how=how, runs=runs, caught=any(r["rc"] == 1 for r in runs))
            print(pid, k, "CAUGHT" if res[k]["caught"] else "missed", [(r["prop"], r["rc"], r["obligations"][:3], r["wall"]) for r in runs], flush=True)
            sh("git checkout -- . && git clean -fdq && git reset -q --hard", cwd=WT)
            json.dump(dict(mutants=res, repo_head=head, at=time.strftime("%Y-%m-%d %H:%M")), open(d + "/detect.json", "w"), indent=1)
        json.dump(dict(mutants=res, repo_head=head, at=time.strftime("%Y-%m-%d %H:%M")), open(d + "/detect.json", "w"), indent=1)
    sh(f"git -C /repo worktree remove --force {WT}")
    sh(f"rm -rf {OUT}")


if __name__ == "__main__":
    main()
