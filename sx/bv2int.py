"""Second opinion for queries the bit-blaster gives up on: the same query over mathematical integers.

The engine's bit-vector terms never wrap (every arithmetic node is built at a width that holds the exact
result), so a term denotes an integer, and the query can be restated in linear/non-linear integer
arithmetic where z3 decides ceil-division and quotient/remainder facts instantly that take the SAT
back end minutes at 64+ bits. Each BV term e is given two integer readings, U(e) (unsigned) and
S(e) (two's complement); nodes that are not arithmetic (and/or/xor with non-mask operands, shifts by
symbolic amounts, ...) make the query untranslatable and the verdict stays "unknown".

Only `unsat` is taken from this translation. On `sat` the integer model's input values are handed back
to the bit-vector solver as equalities, which then either confirms with a proper model or refutes.
"""
import z3

K = z3


class Untranslatable(Exception):
    pass


class Translator:
    def __init__(self):
        self.memo = {}
        self.side = []      # range constraints for translated variables / function results
        self.vars = {}      # bv const name -> (Int var, width)
        self.funcs = {}

    # ---- helpers
    def _s_from_u(self, u, w):
        return z3.If(u >= (1 << (w - 1)), u - (1 << w), u)

    def _u_from_s(self, s, w):
        return z3.If(s < 0, s + (1 << w), s)

    def S(self, e):
        return self.tr(e)[0]

    def U(self, e):
        return self.tr(e)[1]

    def tr(self, e):
        """(signed reading, unsigned reading) of a bit-vector term."""
        key = e.get_id()
        hit = self.memo.get(key)
        if hit is not None:
            return hit
        r = self._tr(e)
        self.memo[key] = r
        return r

    def _both_from_s(self, s, w):
        return (s, self._u_from_s(s, w))

    def _both_from_u(self, u, w):
        return (self._s_from_u(u, w), u)

    def _tr(self, e):
        w = e.size()
        k = e.decl().kind()
        ch = e.children()
        if k == z3.Z3_OP_BNUM:
            u = e.as_long()
            s = e.as_signed_long()
            return (z3.IntVal(s), z3.IntVal(u))
        if k == z3.Z3_OP_UNINTERPRETED:
            if not ch:
                name = e.decl().name()
                if name not in self.vars:
                    v = z3.Int("i!" + name)
                    self.vars[name] = (v, w)
                    self.side.append(z3.And(v >= -(1 << (w - 1)), v < (1 << (w - 1))))
                v = self.vars[name][0]
                return self._both_from_s(v, w)
            # uninterpreted function over bit-vectors (wide-arithmetic abstraction)
            name = e.decl().name()
            f = self.funcs.get(name)
            if f is None:
                f = z3.Function("i!" + name, *([z3.IntSort()] * (len(ch) + 1)))
                self.funcs[name] = f
            s = f(*[self.S(c) for c in ch])
            self.side.append(z3.And(s >= -(1 << (w - 1)), s < (1 << (w - 1))))
            return self._both_from_s(s, w)
        if k == z3.Z3_OP_BADD:
            s = self.S(ch[0])
            for c in ch[1:]:
                s = s + self.S(c)
            return self._both_from_s(s, w)
        if k == z3.Z3_OP_BSUB:
            s = self.S(ch[0])
            for c in ch[1:]:
                s = s - self.S(c)
            return self._both_from_s(s, w)
        if k == z3.Z3_OP_BMUL:
            s = self.S(ch[0])
            for c in ch[1:]:
                s = s * self.S(c)
            return self._both_from_s(s, w)
        if k == z3.Z3_OP_BNEG:
            return self._both_from_s(-self.S(ch[0]), w)
        if k == z3.Z3_OP_BNOT:
            return self._both_from_s(-self.S(ch[0]) - 1, w)
        if k == z3.Z3_OP_SIGN_EXT:
            return self._both_from_s(self.S(ch[0]), w)
        if k == z3.Z3_OP_ZERO_EXT:
            u = self.U(ch[0])
            return (u, u) if w > ch[0].size() else self._both_from_u(u, w)
        if k == z3.Z3_OP_EXTRACT:
            hi, lo = e.params()
            u = self.U(ch[0])
            if lo:
                u = u / (1 << lo)
            if hi + 1 < ch[0].size():
                u = u % (1 << (hi - lo + 1))
            return self._both_from_u(u, w)
        if k == z3.Z3_OP_CONCAT:
            u = z3.IntVal(0)
            for c in ch:
                u = u * (1 << c.size()) + self.U(c)
            return self._both_from_u(u, w)
        if k == z3.Z3_OP_ITE:
            c = self.B(ch[0])
            a, b = self.tr(ch[1]), self.tr(ch[2])
            return (z3.If(c, a[0], b[0]), z3.If(c, a[1], b[1]))
        if k in (z3.Z3_OP_BUDIV, z3.Z3_OP_BUDIV_I):
            d = self.U(ch[1])
            return self._both_from_u(self.U(ch[0]) / d, w)
        if k in (z3.Z3_OP_BUREM, z3.Z3_OP_BUREM_I):
            d = self.U(ch[1])
            return self._both_from_u(self.U(ch[0]) % d, w)
        if k in (z3.Z3_OP_BSMOD, z3.Z3_OP_BSMOD_I):
            # Python's %: result takes the sign of the divisor. z3's Int mod is euclidean (>= 0): equal for a positive divisor.
            if not (z3.is_bv_value(ch[1]) and ch[1].as_signed_long() > 0):
                raise Untranslatable("bvsmod by a divisor not known positive")
            return self._both_from_s(self.S(ch[0]) % ch[1].as_signed_long(), w)
        if k in (z3.Z3_OP_BSDIV, z3.Z3_OP_BSDIV_I):
            # only ever built as exact division (a - a mod b) / b
            if not (z3.is_bv_value(ch[1]) and ch[1].as_signed_long() > 0):
                raise Untranslatable("bvsdiv by a divisor not known positive")
            return self._both_from_s(self.S(ch[0]) / ch[1].as_signed_long(), w)
        if k == z3.Z3_OP_BSHL:
            if not z3.is_bv_value(ch[1]):
                raise Untranslatable("shift by a symbolic amount")
            return self._both_from_s(self.S(ch[0]) * (1 << ch[1].as_long()), w)
        if k == z3.Z3_OP_BASHR:
            if not z3.is_bv_value(ch[1]):
                raise Untranslatable("shift by a symbolic amount")
            return self._both_from_s(self.S(ch[0]) / (1 << ch[1].as_long()), w)
        if k == z3.Z3_OP_BLSHR:
            if not z3.is_bv_value(ch[1]):
                raise Untranslatable("shift by a symbolic amount")
            return self._both_from_u(self.U(ch[0]) / (1 << ch[1].as_long()), w)
        if k == z3.Z3_OP_BAND and len(ch) == 2:
            for a, b in ((ch[0], ch[1]), (ch[1], ch[0])):
                if z3.is_bv_value(b):
                    m = b.as_long()
                    if m & (m + 1) == 0:          # low mask 2^j - 1
                        return self._both_from_u(self.U(a) % (m + 1), w)
            raise Untranslatable("bvand with a non-mask operand")
        raise Untranslatable(f"bit-vector operator {e.decl().name()}")

    def B(self, e):
        key = ("b", e.get_id())
        hit = self.memo.get(key)
        if hit is not None:
            return hit
        r = self._B(e)
        self.memo[key] = r
        return r

    def _B(self, e):
        k = e.decl().kind()
        ch = e.children()
        if k == z3.Z3_OP_TRUE:
            return z3.BoolVal(True)
        if k == z3.Z3_OP_FALSE:
            return z3.BoolVal(False)
        if k == z3.Z3_OP_AND:
            return z3.And(*[self.B(c) for c in ch])
        if k == z3.Z3_OP_OR:
            return z3.Or(*[self.B(c) for c in ch])
        if k == z3.Z3_OP_NOT:
            return z3.Not(self.B(ch[0]))
        if k == z3.Z3_OP_IMPLIES:
            return z3.Implies(self.B(ch[0]), self.B(ch[1]))
        if k == z3.Z3_OP_XOR:
            return z3.Xor(self.B(ch[0]), self.B(ch[1]))
        if k == z3.Z3_OP_ITE:
            return z3.If(self.B(ch[0]), self.B(ch[1]), self.B(ch[2]))
        if k in (z3.Z3_OP_EQ, z3.Z3_OP_IFF):
            if z3.is_bool(ch[0]):
                return self.B(ch[0]) == self.B(ch[1])
            return self.U(ch[0]) == self.U(ch[1])
        if k == z3.Z3_OP_DISTINCT:
            if z3.is_bool(ch[0]):
                return z3.Distinct(*[self.B(c) for c in ch])
            return z3.Distinct(*[self.U(c) for c in ch])
        if k == z3.Z3_OP_SLT:
            return self.S(ch[0]) < self.S(ch[1])
        if k == z3.Z3_OP_SLEQ:
            return self.S(ch[0]) <= self.S(ch[1])
        if k == z3.Z3_OP_SGT:
            return self.S(ch[0]) > self.S(ch[1])
        if k == z3.Z3_OP_SGEQ:
            return self.S(ch[0]) >= self.S(ch[1])
        if k == z3.Z3_OP_ULT:
            return self.U(ch[0]) < self.U(ch[1])
        if k == z3.Z3_OP_ULEQ:
            return self.U(ch[0]) <= self.U(ch[1])
        if k == z3.Z3_OP_UGT:
            return self.U(ch[0]) > self.U(ch[1])
        if k == z3.Z3_OP_UGEQ:
            return self.U(ch[0]) >= self.U(ch[1])
        if k == z3.Z3_OP_UNINTERPRETED and not ch:
            return z3.Bool("b!" + e.decl().name())
        raise Untranslatable(f"boolean operator {e.decl().name()}")


def check_as_int(assertions, timeout_ms=30000):
    """('unsat' | 'sat' | 'unknown' | 'untranslatable', {bv var name: value} on sat)."""
    t = Translator()
    try:
        goals = [t.B(a) for a in assertions]
    except Untranslatable as e:
        return "untranslatable:" + str(e), None
    s = z3.Solver()
    s.set("timeout", timeout_ms)
    s.add(*goals)
    s.add(*t.side)
    r = s.check()
    if r == z3.unsat:
        return "unsat", None
    if r == z3.sat:
        m = s.model()
        vals = {}
        for name, (v, w) in t.vars.items():
            vals[name] = (m.eval(v, model_completion=True).as_long(), w)
        return "sat", vals
    return "unknown", None
