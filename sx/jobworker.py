"""Symbolic job worker: instruments btclib from /repo on import, then runs obligation instances.

Protocol: JSON job per line on stdin -> JSON result per line on stdout.
"""
import json
import os
import sys
import traceback

os.environ.setdefault("BTCLIB_NO_LIBSECP256K1", "1")
sys.setrecursionlimit(6000)


def main():
    real_stdout = sys.stdout
    sys.stdout = sys.stderr
    from sx import api, instr
    instr.install(("btclib", "harness", "refs"))
    api._install_explorer_api()
    from sx import job
    for line in sys.stdin:
        line = line.strip()
        if not line:
            continue
        req = json.loads(line)
        try:
            out = job.run_instance(req["module"], req["ob"], req["prop"], req["params"], req.get("cfg", {}))
        except BaseException as e:  # noqa: BLE001
            out = dict(prop=req["prop"], ob=req["ob"], params=req["params"], status="error",
                       error=f"{type(e).__name__}: {e}\n{traceback.format_exc()[-2500:]}")
        real_stdout.write(json.dumps(out, default=str) + "\n")
        real_stdout.flush()
    job.CW.close()


if __name__ == "__main__":
    main()
