"""vf runner: schedule obligation instances over worker processes, aggregate, write evidence.

Exit codes: 0 all obligations discharged; 1 replayed violation (VIOLATION line);
2 inconclusive / harness error (no VIOLATION line).
"""
from __future__ import annotations

import argparse
import glob
import importlib
import json
import os
import queue
import select
import subprocess
import sys
import threading
import time

ROOT = os.path.dirname(os.path.dirname(os.path.abspath(__file__)))
REPO = os.environ.get("VERIF_REPO", "/repo")


def harness_modules(prop):
    mods = []
    for f in sorted(glob.glob(os.path.join(ROOT, "harness", f"{prop.lower()}*.py"))):
        mods.append("harness." + os.path.basename(f)[:-3])
    return mods


def list_instances(prop, tier, only=None):
    """Enumerate instances in a scratch interpreter (so this process never imports btclib)."""
    code = (
        "import json,sys,importlib\n"
        "from sx import api, instr\n"
        "instr.install((\"btclib\", \"harness\", \"refs\")); api._install_explorer_api()\n"
        f"mods={harness_modules(prop)!r}\n"
        "for m in mods: importlib.import_module(m)\n"
        "out=[]\n"
        "for (p,n),o in api.REGISTRY.items():\n"
        f"    if p!={prop!r}: continue\n"
        f"    for params in o.instances({tier!r}):\n"
        "        out.append(dict(module=o.module, prop=p, ob=n, params=params, timeout=o.timeout, weight=o.weight, bound=o.bound, stubs=o.stubs, outside=o.outside, functions=o.functions))\n"
        "print('@@'+json.dumps(out))\n"
    )
    env = dict(os.environ, BTCLIB_NO_LIBSECP256K1="1")
    r = subprocess.run([sys.executable, "-c", code], cwd=ROOT, env=env, capture_output=True, text=True)
    for line in r.stdout.splitlines():
        if line.startswith("@@"):
            inst = json.loads(line[2:])
            if only:
                inst = [i for i in inst if any(o in i["ob"] for o in only)]
            return inst
    raise RuntimeError("cannot enumerate obligations:\n" + r.stdout[-2000:] + r.stderr[-4000:])


class Worker:
    def __init__(self):
        self.p = None

    def start(self):
        env = dict(os.environ, BTCLIB_NO_LIBSECP256K1="1", PYTHONHASHSEED="0")
        self.p = subprocess.Popen([sys.executable, "-m", "sx.jobworker"], cwd=ROOT, env=env, stdin=subprocess.PIPE,
                                  stdout=subprocess.PIPE, stderr=subprocess.DEVNULL if not os.environ.get("VF_DEBUG") else None,
                                  text=True, bufsize=1)

    def run(self, job, timeout):
        if self.p is None or self.p.poll() is not None:
            self.start()
        self.p.stdin.write(json.dumps(job) + "\n")
        self.p.stdin.flush()
        deadline = time.time() + timeout
        buf = ""
        fd = self.p.stdout.fileno()
        while True:
            left = deadline - time.time()
            if left <= 0:
                self.kill()
                return dict(prop=job["prop"], ob=job["ob"], params=job["params"], status="inconclusive",
                            unknown=[f"wall timeout {timeout}s (worker killed)"])
            r, _, _ = select.select([fd], [], [], min(left, 1.0))
            if r:
                chunk = os.read(fd, 1 << 16).decode()
                if not chunk:
                    self.kill()
                    return dict(prop=job["prop"], ob=job["ob"], params=job["params"], status="error",
                                error="job worker died (crash / out of memory)")
                buf += chunk
                if "\n" in buf:
                    line, buf = buf.split("\n", 1)
                    return json.loads(line)

    def kill(self):
        if self.p is not None:
            try:
                import signal
                os.killpg(os.getpgid(self.p.pid), signal.SIGKILL) if False else self.p.kill()
            except Exception:
                pass
            # the concrete twin is a child of the worker: it sees EOF on stdin and exits
            self.p = None

    def close(self):
        if self.p is not None:
            try:
                self.p.stdin.close()
                self.p.wait(timeout=10)
            except Exception:
                self.p.kill()


def run_all(instances, nproc, cfg, progress=True):
    q = queue.Queue()
    order = sorted(range(len(instances)), key=lambda i: -instances[i].get("weight", 1.0))
    for i in order:
        q.put(i)
    results = [None] * len(instances)
    lock = threading.Lock()
    done = [0]

    def loop():
        w = Worker()
        while True:
            try:
                i = q.get_nowait()
            except queue.Empty:
                break
            inst = instances[i]
            job = dict(module=inst["module"], prop=inst["prop"], ob=inst["ob"], params=inst["params"], cfg=cfg)
            r = w.run(job, inst.get("timeout", 600))
            results[i] = r
            with lock:
                done[0] += 1
                if progress:
                    print(f"  [{done[0]}/{len(instances)}] {inst['ob']} {json.dumps(inst['params'])[:80]} -> {r.get('status')} "
                          f"paths={r.get('paths')} wall={r.get('wall_s')}", file=sys.stderr, flush=True)
        w.close()

    threads = [threading.Thread(target=loop) for _ in range(min(nproc, max(1, len(instances))))]
    for t in threads:
        t.start()
    for t in threads:
        t.join()
    return results


def load_known():
    path = os.path.join(ROOT, "known_findings.jsonl")
    out = []
    if os.path.exists(path):
        for line in open(path):
            line = line.strip()
            if line.startswith("{"):
                out.append(json.loads(line))
    return out


def check(prop, tier, only=None, nproc=None, write_evidence=True):
    t0 = time.time()
    seed = int(os.environ.get("VERIF_SEED", "0") or 0)
    nproc = nproc or int(os.environ.get("VF_NPROC", "0") or 0) or (os.cpu_count() or 4)
    known_all = load_known()
    known = [k for k in known_all if k.get("property") == prop and k.get("status", "open") == "open"]
    instances = list_instances(prop, tier, only)
    if not instances:
        print(f"no obligations registered for {prop}", file=sys.stderr)
        return 2
    if seed:
        import random
        random.Random(seed).shuffle(instances)
    results = run_all(instances, nproc, dict(known_findings=known, validate=True))
    agg = aggregate(prop, tier, seed, instances, results, time.time() - t0, known)
    code = 0
    for r, inst in zip(results, instances):
        if r["status"] == "violation":
            code = 1                 # a replayed violation outranks an inconclusive instance, whichever came first
        elif r["status"] in ("error", "inconclusive") and code == 0:
            code = 2
    # every obligation names library functions it must be seen executing (guards against a harness that bypasses the code)
    for obname in sorted({i["ob"] for i in instances}):
        want = set([i for i in instances if i["ob"] == obname][0].get("functions", []))
        seen = {f for i, r in zip(instances, results) if i["ob"] == obname for f in r.get("functions", [])}
        if want - seen:
            print(f"INCONCLUSIVE {prop} {obname}: expected library functions never executed: {sorted(want - seen)}", file=sys.stderr)
            code = max(code, 2) if code != 1 else 1
    OUT = os.environ.get("VERIF_OUT", ROOT)    # tooling (seed detection runs) redirects replays and evidence away from /verif
    os.makedirs(os.path.join(OUT, "replays"), exist_ok=True)
    nrep = 0
    for r in results:
        for c in r.get("cex", []):
            if c.get("reproduced"):
                nrep += 1
                name = f"{prop}-{r['ob']}-{nrep}.json"
                path = os.path.join(OUT, "replays", name)
                with open(path, "w") as f:
                    json.dump(dict(property=prop, module=[i for i in instances if i["ob"] == r["ob"]][0]["module"], ob=r["ob"],
                                   params=r["params"], claim=c["claim"], inputs=c["inputs"], uf=c.get("uf", {}),
                                   observed=c.get("concrete"), shown=c.get("shown")), f, indent=1)
                print(f"VIOLATION property={prop} replay={path}")
                print(f"  obligation={r['ob']} params={json.dumps(r['params'])} claim={c['claim']} inputs={json.dumps(c.get('shown'))[:400]}")
    seen_known = sorted({k for r in results for k in r.get("known", [])})
    for kid in seen_known:
        kf = [k for k in known if k["id"] == kid][0]
        print(f"KNOWN-FINDING: property={prop} {kf['id']}: {kf.get('what', '')}")
    if code == 2:
        seen_msgs = {}
        for r in results:
            if r["status"] in ("error", "inconclusive"):
                msg = str(r.get('error') or r.get('unknown') or r.get('unsupported'))
                key = (r["ob"], msg[:120])
                seen_msgs[key] = seen_msgs.get(key, 0) + 1
                if seen_msgs[key] == 1:
                    lim = 2500 if os.environ.get("VF_VERBOSE") else 700
                    print(f"INCONCLUSIVE {prop} {r['ob']} {json.dumps(r['params'])}: {msg}"[:lim], file=sys.stderr)
        for (obn, m), c in seen_msgs.items():
            if c > 1:
                print(f"  ... {obn}: {c} instances with: {m[:100]}", file=sys.stderr)
    agg["violations"] = nrep
    agg["exit_code"] = code
    if write_evidence and not only:
        os.makedirs(os.path.join(OUT, "evidence"), exist_ok=True)
        with open(os.path.join(OUT, "evidence", f"{prop}.json"), "w") as f:
            json.dump(agg, f, indent=1)
    s = agg["coverage"]
    print(f"{prop} {tier}: instances={len(instances)} paths={s['states']} decisions={s['transitions']} obligations={s['obligations']} "
          f"discharged={s['discharged']} validated={s['traces_validated_against_impl']} queries={s['evaluations']} "
          f"solver_s={s['solver_seconds']} wall={round(time.time() - t0, 1)}s exit={code}")
    return code


def aggregate(prop, tier, seed, instances, results, wall, known):
    tot = lambda k: sum(int(r.get(k, 0) or 0) for r in results)  # noqa: E731
    fns = sorted({f for r in results for f in r.get("functions", [])})
    obs = {}
    for inst, r in zip(instances, results):
        o = obs.setdefault(inst["ob"], dict(bound=inst.get("bound", ""), stubs=inst.get("stubs", []), outside=inst.get("outside", []),
                                             instances=0, paths=0, ok_paths=0, refused_paths=0, obligations=0, discharged=0,
                                             queries=0, solver_s=0.0, wall_s=0.0, statuses={}, validated=0, params=[]))
        o["instances"] += 1
        for k in ("paths", "ok_paths", "refused_paths", "validated", "queries"):
            o[k] += int(r.get(k, 0) or 0)
        o["obligations"] += int(r.get("claims", 0) or 0)
        o["discharged"] += int(r.get("discharged", 0) or 0)
        o["solver_s"] = round(o["solver_s"] + float(r.get("solver_s", 0) or 0), 3)
        o["wall_s"] = round(o["wall_s"] + float(r.get("wall_s", 0) or 0), 3)
        o["statuses"][r["status"]] = o["statuses"].get(r["status"], 0) + 1
        if len(o["params"]) < 40:
            o["params"].append(inst["params"])
    samples = []
    for inst, r in zip(instances, results):
        for s in r.get("samples", [])[:2]:
            if len(samples) < 24 and sum(1 for x in samples if x["obligation"] == inst["ob"]) < 2:
                samples.append(dict(obligation=inst["ob"], params=inst["params"], **s))
    if not samples:
        samples = [dict(obligation=i["ob"], params=i["params"]) for i in instances[:3]]
    nontrivial = sum(int(r.get("ok_paths", 0) or 0) + int(r.get("refused_paths", 0) or 0) for r in results)
    assumptions = [
        "bounds: every claim holds only within the per-obligation bound listed under coverage.obligation_table[*].bound; nothing is claimed outside it",
        "btclib runs with BTCLIB_NO_LIBSECP256K1=1 (pure-Python arm); the cffi bindings are outside the claim",
        "z3 (wheel 5.1) is trusted for unsat answers; every sat answer is replayed on the uninstrumented library before it is reported",
        "the engine's models of Python builtins (int/bytes/BytesIO/str operations) are trusted up to the per-path concrete cross-validation counted in traces_validated_against_impl and the model self-tests run by `vf setup`",
    ]
    for o in obs.values():
        for s in o["stubs"]:
            a = "stub: " + s
            if a not in assumptions:
                assumptions.append(a)
    outside = sorted({x for o in obs.values() for x in o["outside"]})
    return dict(
        property_id=prop, tier=tier, seed=seed, level="model_checking", wall_s=round(wall, 2),
        coverage=dict(
            states=tot("paths"), transitions=max(tot("decisions"), 1 if tot("paths") else 0),
            traces_validated_against_impl=tot("validated"),
            samples=samples,
            obligations=tot("claims"), discharged=tot("discharged"),
            evaluations=tot("queries"), distinct_nontrivial=nontrivial,
            rule="one case = one feasible execution path of the real (instrumented) library code over symbolic inputs; "
                 "distinct by branch-decision sequence; non-trivial = reached a claim or an allowed refusal under a satisfiable path condition",
            solver_seconds=round(sum(float(r.get("solver_s", 0) or 0) for r in results), 2),
            exhaustive=False,
            instances=len(instances),
            instance_status={s: sum(1 for r in results if r["status"] == s) for s in sorted({r["status"] for r in results})},
            obligation_table=obs,
            functions_encoded=fns,
            outside_the_claim=outside,
            known_findings=[k["id"] for k in known],
            explanation="bounded symbolic execution of btclib's own source (AST-instrumented on every run from /repo's working tree) with z3 deciding, per path, "
                        "path_condition AND NOT claim; unsat on every path of every instance = holds for every input within the bound",
        ),
        assumptions=assumptions,
        violations=0,
    )


def replay(path):
    rec = json.load(open(path))
    env = dict(os.environ, BTCLIB_NO_LIBSECP256K1="1")
    p = subprocess.run([sys.executable, "-m", "sx.worker"], cwd=ROOT, env=env, text=True, capture_output=True,
                       input=json.dumps(dict(module=rec["module"], prop=rec["property"], ob=rec["ob"], params=rec["params"],
                                             inputs=rec["inputs"], uf=rec.get("uf", {}))) + "\n")
    out = json.loads(p.stdout.strip().splitlines()[-1])
    print(json.dumps(out, indent=1))
    claim = rec["claim"]
    bad = out.get("kind") == "exc" or any(v is False for v in out.get("claims", {}).values())
    if bad:
        print(f"VIOLATION property={rec['property']} replay={path}")
        return 1
    print("not reproduced on this tree")
    return 0


def main(argv=None):
    ap = argparse.ArgumentParser(prog="vf")
    sub = ap.add_subparsers(dest="cmd", required=True)
    c = sub.add_parser("check")
    c.add_argument("prop")
    c.add_argument("--tier", default=os.environ.get("VERIF_TIER", "quick"), choices=["quick", "thorough"])
    c.add_argument("--only", action="append")
    c.add_argument("-j", type=int, default=None)
    r = sub.add_parser("replay")
    r.add_argument("path")
    a = ap.parse_args(argv)
    if a.cmd == "check":
        return check(a.prop, a.tier, a.only, a.j)
    if a.cmd == "replay":
        return replay(a.path)


if __name__ == "__main__":
    sys.exit(main())
