"""Source instrumentation: btclib modules are re-read from /repo, their AST rewritten so
that subscripts, calls, and membership tests go through sx dispatchers, then compiled.
"""
from __future__ import annotations

import ast
import builtins
import importlib.abc
import importlib.machinery
import importlib.util
import io
import sys

import hashlib
import hmac as _hmac
import os
import secrets

from . import core, seq
from .core import SymBool, SymInt, SxUnsupported, concretize, ite, lift, sand, sor, snot
from .seq import SymBytes, SymByteArray, SymBytesIO, SymStr, as_symbytes, mk_bytes, select

SYM = (SymInt, SymBool, SymBytes, SymStr)
executed: set[str] = set()


def is_sym(x):
    return isinstance(x, SYM)


def any_sym(args, kwargs=()):
    for a in args:
        if isinstance(a, SYM):
            return True
        if type(a) in (list, tuple) and any(isinstance(i, SYM) for i in a):
            return True
    for a in kwargs:
        if isinstance(a, SYM):
            return True
    return False


# ---------------------------------------------------------------- dispatchers
def getitem(a, b):
    tb = type(b)
    if (tb is SymInt or tb is SymBool) and type(a) not in (SymBytes, SymByteArray, SymStr):
        if type(a) is str:
            return SymStr.mk([select([ord(c) for c in a], b)])
        if isinstance(a, (list, tuple, bytes, range)):
            if all(type(i) in (int, bool, SymInt, SymBool) for i in a) or (
                    all(type(i) is tuple for i in a) and len({len(i) for i in a}) == 1
                    and all(type(c) in (int, bool, SymInt, SymBool) for i in a for c in i)):
                return select(list(a), b)   # numbers, or equal-length tuples of numbers (coordinates): an if-then-else term
            n_ = len(a)
            if bool(sor(b >= n_, b < -n_)):
                raise IndexError("list index out of range" if type(a) is list else "index out of range")
            return a[concretize(b)]     # items that are not numbers (byte strings of different lengths, objects): case split
        if isinstance(a, bytearray):
            return select(list(a), b)
        if isinstance(a, dict):
            return dict_get(a, b, _MISSING)
    if tb is SymStr and isinstance(a, dict):
        return dict_get(a, b, _MISSING)
    if tb is SymBytes and isinstance(a, dict):
        return dict_get(a, b, _MISSING)
    if isinstance(b, slice) and any(isinstance(v, SYM) for v in (b.start, b.stop, b.step)):
        b = slice(*(concretize(v) for v in (b.start, b.stop, b.step)))
    return a[b]


_MISSING = object()


def _key_compatible(k, kk):
    # keys stored earlier may themselves be symbolic (their hash was taken on a concretized value, so d[kk] still finds them)
    tk = type(k)
    if tk is SymInt or tk is SymBool:
        return type(kk) in (int, bool, SymInt, SymBool)
    if tk is SymStr:
        return type(kk) in (str, SymStr) and len(kk) == len(k)
    if tk in (SymBytes, SymByteArray):
        return type(kk) in (bytes, SymBytes) and len(kk) == len(k)
    return False


def _fused_lookup(d, k, default):
    """d[k] where k is itself table[idx] for a concrete table: one look-up table[idx] -> d.get(table[idx]) indexed by idx."""
    if type(k) is SymStr and len(k) == 1 and type(k.items[0]) is SymInt:
        item, conv = k.items[0], chr
    elif type(k) is SymInt:
        item, conv = k, (lambda v: v)
    else:
        return _MISSING
    if item.prov is None:
        return _MISSING
    table, idx, lo, hi = item.prov
    miss = object()
    vals = [d.get(conv(v), miss) for v in table]
    live = vals[lo:hi + 1]
    if any(v is miss for v in live):
        if default is _MISSING:
            return _MISSING          # a KeyError is possible: leave it to the general path
        vals = [default if v is miss else v for v in vals]
        live = vals[lo:hi + 1]
    if not all(type(v) is int for v in live):
        return _MISSING
    if live == list(range(lo, hi + 1)):
        return idx                    # the second table undoes the first: the index itself
    return select(vals, idx)


def dict_get(d, k, default):
    fused = _fused_lookup(d, k, default)
    if fused is not _MISSING:
        return fused
    keys = [kk for kk in d.keys() if _key_compatible(k, kk)]
    hit = sor(*[k == kk for kk in keys])
    if not bool(hit):
        if default is _MISSING:
            raise KeyError(k)
        return default
    vals = [d[kk] for kk in keys]
    if all(type(v) is int for v in vals) or all(type(v) is bool for v in vals):
        res = None
        for kk in keys:
            res = d[kk] if res is None else ite(k == kk, d[kk], res)
        return res
    # values of arbitrary type: case split
    for kk in keys:
        if bool(k == kk):
            return d[kk]
    raise core.SxAbort("dict_get: no key matched")  # unreachable


def contains(x, c):
    """x in c"""
    tx = type(x)
    if type(c) is SymSet:
        return sor(*[x == e for e in c.items]) if c.items else False
    if tx is SymInt or tx is SymBool:
        if isinstance(c, range) and c.step == 1:
            return sand(x >= c.start, x < c.stop)
        if isinstance(c, (set, frozenset, list, tuple, range, dict)):
            return sor(*[x == e for e in c if type(e) in (int, bool, SymInt, SymBool)])
        if isinstance(c, (bytes, bytearray)):
            return sor(*[x == e for e in set(c)])
    if tx is SymStr:
        if type(c) is str:
            return SymStr.of(c).find_sym(x) >= 0
        if isinstance(c, (set, frozenset, list, tuple, dict)):
            return sor(*[x == e for e in c if type(e) in (str, SymStr) and len(e) == len(x)])
    if tx in (SymBytes, SymByteArray) and isinstance(c, (set, frozenset, list, tuple, dict)):
        return sor(*[x == e for e in c if isinstance(e, (bytes, SymBytes)) and len(e) == len(x)])
    if isinstance(c, (list, tuple)) and any(isinstance(e, SYM) for e in c):
        return sor(*[x == e for e in c])
    if type(c) is SymStr and type(x) is str:
        return c.find_sym(SymStr.of(x)) >= 0
    return x in c


def _len(x):
    return len(x)


def _m_int(*a, **k):
    if len(a) == 1 and isinstance(a[0], (SymInt, SymBool)):
        return lift(a[0]) if isinstance(a[0], SymBool) else a[0]
    if len(a) == 2 and type(a[0]) is SymStr and type(a[1]) is int and a[1] == 2 and not k:
        # int(s, 2) on digits that are symbolic: every character must be '0' or '1' (sign, blanks, underscores and '0b' are not modelled: unsupported)
        items = a[0].items
        if not items:
            raise ValueError("invalid literal for int() with base 2: ''")
        v = 0
        for c in items:
            if type(c) is int:
                if c not in (48, 49):
                    raise SxUnsupported("int(s, 2) on a symbolic string with a concrete non-digit")
            elif not (c.lo >= 48 and c.hi <= 49):
                if not bool(sor(c == 48, c == 49)):
                    # CPython tolerates a sign, surrounding blanks, '_' between digits, a '0b' prefix and non-ASCII digits: none of that is modelled
                    if bool(sor(c == 95, c == 43, c == 45, c == 98, c == 66, c == 32, sand(c >= 9, c <= 13), sand(c >= 28, c <= 31), c > 127)):
                        raise SxUnsupported("int(s, 2): a character CPython may tolerate (sign, blank, underscore, prefix, non-ASCII digit)")
                    raise ValueError("invalid literal for int() with base 2")
            v = v * 2 + (c - 48)
        return v
    return int(*a, **k)


def _m_bytes(*a, **k):
    if len(a) == 1:
        x = a[0]
        if isinstance(x, SymBytes):
            return x
        if isinstance(x, (list, tuple)) and any(isinstance(i, SYM) for i in x):
            for i in x:
                if bool(sor(i < 0, i > 255)):
                    raise ValueError("bytes must be in range(0, 256)")
            return mk_bytes(x)
        if isinstance(x, (SymInt, SymBool)):
            return bytes(concretize(x))
    return bytes(*a, **k)


def _m_bytearray(*a, **k):
    """Every bytearray built by instrumented code is the engine's mutable byte sequence, so that symbolic bytes can be stored in it later."""
    if k or len(a) > 1:
        return bytearray(*a, **k)
    if not a:
        return SymByteArray([])
    x = a[0]
    if isinstance(x, SymBytes):
        return SymByteArray(x.items)
    if type(x) in (SymInt, SymBool):
        return SymByteArray([0] * concretize(x))
    if type(x) is int:
        return SymByteArray([0] * x)
    if isinstance(x, (bytes, bytearray, memoryview)):
        return SymByteArray(list(bytes(x)))
    return SymByteArray(list(x))


class SymRange:
    """range(n) with symbolic stop: unrolled lazily, one fork per iteration."""

    def __init__(self, stop):
        self.stop = stop

    def __iter__(self):
        k = 0
        while bool(k < self.stop):
            yield k
            k += 1

    def __len__(self):
        return concretize(self.stop)


def _m_range(*a):
    if len(a) == 1 and isinstance(a[0], (SymInt, SymBool)):
        return SymRange(a[0])
    return range(*(concretize(x) for x in a))


def _m_min(*a, **k):
    if k or len(a) == 1:
        a = list(a[0]) if len(a) == 1 else a
    if any_sym(a) and not k:
        r = a[0]
        for x in a[1:]:
            r = ite(x < r, x, r)
        return r
    return min(*a, **k)


def _m_max(*a, **k):
    if len(a) == 1:
        a = list(a[0])
    if any_sym(a) and not k:
        r = a[0]
        for x in a[1:]:
            r = ite(x > r, x, r)
        return r
    return max(*a, **k)


def _m_pow(base, e, m=None):
    if not any_sym((base, e, m) if m is not None else (base, e)):
        return pow(base, e) if m is None else pow(base, e, m)
    if isinstance(e, (SymInt, SymBool)):
        e = concretize(e)
    if e == -1 and m is not None:
        return mod_inverse(base, m)
    if e < 0:
        raise SxUnsupported("negative exponent")
    return core.spow(base, e, m)


PRIME_MODULI: list = []  # harness-declared primes (ints or SymInt identities)


def mod_inverse(a, m):
    """pow(a, -1, m): fresh witness; invertibility decided for prime moduli only."""
    if type(m) is int and m == 1:
        return 0        # CPython: pow(a, -1, 1) == 0
    a = a % m
    prime = any(m is p for p in PRIME_MODULI) or (isinstance(m, int) and all(m % d for d in range(2, int(m ** 0.5) + 1)) and m > 1)
    if not prime:
        if isinstance(m, int) and m < 4096:
            import math
            ok = sor(*[a == r for r in range(m) if math.gcd(r, m) == 1])
            if not bool(ok):
                raise ValueError("base is not invertible for the given modulus")
        else:
            raise SxUnsupported("inverse modulo non-prime symbolic modulus")
    else:
        if bool(a == 0):
            raise ValueError("base is not invertible for the given modulus")
    hi = m - 1 if isinstance(m, int) else lift(m).hi - 1
    inv = core.CUR.fresh_var("inv", 1, hi)
    core.CUR.assume_z3(sand(inv < m, (a * inv) % m == 1).e)
    return inv


def _m_isinstance(x, t):
    return isinstance(x, t)


def _m_abs(x):
    return abs(x)


def _m_sum(it, start=0):
    r = start
    for x in it:
        r = r + x
    return r


def _m_any(it):
    return bool(sor(*list(it))) if True else None


def _m_all(it):
    return bool(sand(*list(it)))


def _m_divmod(a, b):
    return a // b, a % b


def _m_ord(c):
    if type(c) is SymStr:
        if len(c) != 1:
            raise TypeError(f"ord() expected a character, but string of length {len(c)} found")
        return c.items[0]
    if type(c) in (SymBytes, SymByteArray):
        if len(c) != 1:
            raise TypeError("ord() expected a character")
        return c.items[0]
    return ord(c)


def _m_chr(i):
    if type(i) in (SymInt, SymBool):
        if bool(sor(i < 0, i > 0x10FFFF)):
            raise ValueError("chr() arg not in range(0x110000)")
        return SymStr.mk([i])
    return chr(i)


def _m_bool(x=False):
    return bool(x)


def _m_BytesIO(*a):
    if a and isinstance(a[0], SymBytes):
        return SymBytesIO(a[0])
    return io.BytesIO(*a)


def _m_from_bytes(data, byteorder="big", *, signed=False):
    if isinstance(data, SymBytes) or (isinstance(data, (list, tuple)) and any_sym(data)):
        return seq.int_from_bytes(data, byteorder, signed=signed)
    return int.from_bytes(data, byteorder, signed=signed)


def _m_hex(x):
    if is_sym(x):
        return "0x<sym>"    # rendering for messages only: int("0x<sym>", 16) raises, it can never be read back as a number
    return hex(x)


def _m_bin(x):
    if is_sym(x):
        raise SxUnsupported("bin() of a symbolic value")
    return bin(x)


def _m_str(*a, **k):
    if a and is_sym(a[0]):
        if type(a[0]) is SymStr:
            return a[0]
        return "<sym>"   # only ever used in messages; never parsed back (int(str) is unsupported)
    return str(*a, **k)


def _m_reversed(x):
    if isinstance(x, SymBytes):
        return iter(list(reversed(x.items)))
    if type(x) is SymStr:
        return iter([SymStr.mk([c]) for c in reversed(x.items)])
    return reversed(x)


def _m_sorted(it, *, key=None, reverse=False):
    return sorted(it, key=key, reverse=reverse)


def _m_len(x):
    from .seq import LazyBinStr
    if type(x) is LazyBinStr:
        return x.sym_len()
    return len(x)


def _m_bytes_fromhex(s):
    if type(s) is not SymStr:
        return bytes.fromhex(s)
    vals = []
    for i, c in enumerate(s.items):
        if type(c) is int:
            ch = chr(c)
            if ch in "0123456789abcdefABCDEF":
                vals.append(int(ch, 16))
                continue
            if ch in " \t\n\r\v\f":
                raise SxUnsupported("bytes.fromhex: white space inside partly symbolic text")
            raise ValueError(f"non-hexadecimal number found in fromhex() arg at position {i}")
        dig, low, up = sand(c >= 48, c <= 57), sand(c >= 97, c <= 102), sand(c >= 65, c <= 70)
        if not sor(dig, low, up):
            if sor(c == 32, sand(c >= 9, c <= 13)):
                raise SxUnsupported("bytes.fromhex: a symbolic character may be white space")
            raise ValueError(f"non-hexadecimal number found in fromhex() arg at position {i}")
        vals.append(ite(dig, c - 48, ite(low, c - 87, c - 55)))
    if len(vals) % 2:
        raise ValueError(f"non-hexadecimal number found in fromhex() arg at position {len(vals)}")
    return mk_bytes([(vals[k] << 4) | vals[k + 1] for k in range(0, len(vals), 2)])


def _m_compare_digest(a, b):
    if is_sym(a) or is_sym(b):
        return a == b
    return _hmac.compare_digest(a, b)


# ------------------------------------------------------------------ datetime / enum
import datetime as _dt
import enum as _enum


class SymDatetime(_dt.datetime):
    """Aware datetime whose POSIX timestamp is symbolic (whole seconds in 0..2^32)."""

    def __new__(cls, ts, tz):
        self = _dt.datetime.__new__(cls, 2009, 1, 3, tzinfo=tz)
        self._ts = ts
        return self

    def timestamp(self):
        return self._ts

    def _o(self, o):
        return o._ts if isinstance(o, SymDatetime) else (int(o.timestamp()) if o.timestamp() == int(o.timestamp()) else o.timestamp())

    def __eq__(self, o):
        if not isinstance(o, _dt.datetime):
            return False
        return self._ts == self._o(o)

    def __ne__(self, o): return snot(self.__eq__(o))
    def __lt__(self, o): return self._ts < self._o(o)
    def __le__(self, o): return self._ts <= self._o(o)
    def __gt__(self, o): return self._ts > self._o(o)
    def __ge__(self, o): return self._ts >= self._o(o)
    def __hash__(self): return hash(concretize(self._ts))
    def isoformat(self, *a, **k): raise SxUnsupported("isoformat of a symbolic datetime")

    def __sub__(self, o):
        if isinstance(o, _dt.datetime):
            return SymTimedelta(self._ts - self._o(o))
        raise SxUnsupported("symbolic datetime minus a timedelta")

    def __rsub__(self, o):
        if isinstance(o, _dt.datetime):
            return SymTimedelta(self._o(o) - self._ts)
        raise SxUnsupported("datetime arithmetic")
    def __str__(self): return "<symdatetime>"
    __repr__ = __str__
    def __format__(self, spec): return "<symdatetime>"


class SymTimedelta:
    def __init__(self, secs):
        self._s = secs

    def total_seconds(self):
        return self._s


def _m_fromtimestamp(ts, tz=None):
    if isinstance(ts, (SymInt, SymBool)):
        if tz is not _dt.timezone.utc:
            raise SxUnsupported("datetime.fromtimestamp(sym) with a non-UTC zone")
        if bool(sor(ts < 0, ts > 0xFFFFFFFF)):
            raise SxUnsupported("datetime.fromtimestamp(sym) outside 0..2^32-1")
        return SymDatetime(ts, tz)
    return _dt.datetime.fromtimestamp(ts, tz)


import ipaddress as _ip


class SymIPv6Address(_ip.IPv6Address):
    """IPv6Address over 16 symbolic octets: only .packed, equality and formatting are modelled."""

    __slots__ = ("_sym",)

    def __new__(cls, octets):
        return object.__new__(cls)

    def __init__(self, octets):
        object.__setattr__(self, "_sym", octets)
        object.__setattr__(self, "_ip", 0)
        object.__setattr__(self, "_scope_id", None)

    @property
    def packed(self):
        return self._sym

    def __eq__(self, o):
        if isinstance(o, SymIPv6Address):
            return self._sym == o._sym
        if isinstance(o, _ip.IPv6Address):
            return self._sym == o.packed
        return False

    def __ne__(self, o): return snot(self.__eq__(o))
    def __hash__(self): return hash(self._sym)
    def __str__(self): return "<symip>"
    __repr__ = __str__
    def __format__(self, spec): return "<symip>"
    def __int__(self): return seq.int_from_bytes(self._sym, "big")

    @property
    def ipv4_mapped(self):
        raise SxUnsupported("ipv4_mapped of a symbolic address")


def _m_ipv6(addr):
    if isinstance(addr, SymBytes):
        if len(addr) != 16:
            raise _ip.AddressValueError("<sym> (len != 16)")
        return SymIPv6Address(mk_bytes(addr.items))
    return _ip.IPv6Address(addr)


def _enum_call(cls, v):
    """EnumClass(sym): one fork per member, ValueError if none (IntFlag: unsupported)."""
    if issubclass(cls, _enum.IntFlag):
        if bool(v < 0):
            raise SxUnsupported(f"{cls.__name__}(negative symbolic)")
        return v    # an IntFlag is the int it was built from (unnamed bits are kept); cross-validated per path
    if issubclass(cls, _enum.Flag):
        raise SxUnsupported(f"{cls.__name__}(symbolic) on a Flag enum")
    for m in cls:
        if type(m.value) in (int, bool) and bool(v == m.value):
            return m
    raise ValueError(f"<sym> is not a valid {cls.__qualname__}")


# ------------------------------------------------------------------ hashes as UFs
HASH_INJECTIVE = False     # harness switch: assume collision resistance
_HASH_UFS: dict = {}
_DIGEST_SIZES = {"sha256": 32, "sha1": 20, "sha512": 64, "ripemd160": 20, "sha384": 48, "sha224": 28,
                 "md5": 16, "sha3_256": 32, "sha3_512": 64, "blake2b": 64, "blake2s": 32}
_BLOCK_SIZES = {"sha256": 64, "sha1": 64, "sha512": 128, "ripemd160": 64, "sha384": 128, "sha224": 64, "md5": 64,
                "sha3_256": 136, "sha3_512": 72, "blake2b": 128, "blake2s": 64}


def hash_uf(name, outlen, real=None):
    from .uf import UF
    key = (name, outlen)
    u = _HASH_UFS.get(key)
    if u is None or u.injective != HASH_INJECTIVE:
        u = UF(name, outlen, injective=HASH_INJECTIVE, real=real)
        _HASH_UFS[key] = u
    return u


def reset_hash_ufs():
    _HASH_UFS.clear()


class SymHash:
    """hashlib-style object whose digest is an uninterpreted function of the data."""

    def __init__(self, name, data=b""):
        self.name = name
        self.digest_size = _DIGEST_SIZES[name]
        self.block_size = _BLOCK_SIZES[name]
        self._items = list(as_symbytes(data).items)

    def update(self, data):
        b = as_symbytes(data)
        if b is None:
            raise TypeError("object supporting the buffer API required")
        self._items.extend(b.items)

    def copy(self):
        h = SymHash(self.name)
        h._items = list(self._items)
        return h

    def digest(self):
        real = (lambda d, n=self.name: hashlib.new(n, d).digest())
        if all(type(i) is int for i in self._items) and (core.CUR is None or not core.CUR.active or not TRACK_CONCRETE_HASHES):
            return real(bytes(self._items))
        return hash_uf(self.name, self.digest_size, real)(mk_bytes(self._items))

    def hexdigest(self):
        d = self.digest()
        if type(d) is bytes:
            return d.hex()
        raise SxUnsupported("hexdigest of symbolic data")


def _hash_ctor(name):
    def ctor(data=b"", **kw):
        return SymHash(name, data)
    ctor.__name__ = name
    return ctor


def _m_hashlib_new(name, data=b"", **kw):
    return SymHash(name.lower(), data)


def _alg_name(digestmod):
    if isinstance(digestmod, str):
        return digestmod.lower()
    for n in _DIGEST_SIZES:
        if digestmod is getattr(hashlib, n, None):
            return n
    if callable(digestmod):
        try:
            return digestmod().name
        except Exception:
            pass
    raise SxUnsupported(f"hmac digestmod {digestmod!r}")


def _frame(*parts):
    """Unambiguous framing of several byte strings of concrete length."""
    items = []
    for p in parts:
        b = as_symbytes(p)
        items.extend([len(b) >> 8 & 255, len(b) & 255])
        items.extend(b.items)
    return mk_bytes(items)


class SymHmac:
    def __init__(self, key, msg, name):
        self.name = "hmac-" + name
        self._alg = name
        self.digest_size = _DIGEST_SIZES[name]
        self.block_size = _BLOCK_SIZES[name]
        self._key = as_symbytes(key)
        self._items = list(as_symbytes(msg).items) if msg is not None else []

    def update(self, data):
        self._items.extend(as_symbytes(data).items)

    def copy(self):
        h = SymHmac(self._key, None, self._alg)
        h._items = list(self._items)
        return h

    def digest(self):
        concrete = all(type(i) is int for i in self._key.items) and all(type(i) is int for i in self._items)
        if concrete and (core.CUR is None or not core.CUR.active or not TRACK_CONCRETE_HASHES):
            return _hmac.new(bytes(self._key.items), bytes(self._items), self._alg).digest()
        real = None
        if concrete:
            k_, m_, a_ = bytes(self._key.items), bytes(self._items), self._alg
            real = (lambda _framed: _hmac.new(k_, m_, a_).digest())
        u = hash_uf(self.name, self.digest_size)
        u.real = real        # concrete applications are answered by the real HMAC and registered, so later symbolic ones stay consistent with them
        try:
            return u(_frame(self._key, SymBytes(self._items)))
        finally:
            u.real = None

    def hexdigest(self):
        d = self.digest()
        if type(d) is bytes:
            return d.hex()
        raise SxUnsupported("hexdigest of symbolic data")


def _m_hmac_new(key, msg=None, digestmod=""):
    return SymHmac(key, msg, _alg_name(digestmod))


def _m_hmac_digest(key, msg, digest):
    return SymHmac(key, msg, _alg_name(digest)).digest()


def _m_pbkdf2(name, password, salt, iterations, dklen=None):
    dklen = dklen or _DIGEST_SIZES[name]
    it = concretize(iterations)
    return hash_uf(f"pbkdf2-{name}-{it}", dklen)(_frame(password, salt))


# ------------------------------------------------------------------ randomness: arbitrary value of the range
RANDOM_SYMBOLIC = True


def _m_randbelow(n):
    if not RANDOM_SYMBOLIC and type(n) is int:
        return secrets.randbelow(n)
    hi = (n.hi if isinstance(n, SymInt) else n) - 1
    v = core.CUR.fresh_var("rand", 0, hi)
    if isinstance(n, SymInt):
        core.CUR.assume_z3((v < n).e)
    return v


def _m_token_bytes(n=32):
    n = concretize(n)
    if not RANDOM_SYMBOLIC:
        return secrets.token_bytes(n)
    return SymBytes([core.CUR.fresh_var("randb", 0, 255) for _ in range(n)])


def _m_randbits(k):
    k = concretize(k)
    if not RANDOM_SYMBOLIC:
        return secrets.randbits(k)
    return core.CUR.fresh_var("rand", 0, (1 << k) - 1)


MODELS = {
    int: _m_int, bytes: _m_bytes, bytearray: _m_bytearray, range: _m_range, min: _m_min, max: _m_max,
    pow: _m_pow, abs: _m_abs, sum: _m_sum, any: _m_any, all: _m_all, divmod: _m_divmod,
    io.BytesIO: _m_BytesIO, int.from_bytes: _m_from_bytes, hex: _m_hex, bin: _m_bin, reversed: _m_reversed,
    ord: _m_ord, chr: _m_chr, str: _m_str, bytes.fromhex: _m_bytes_fromhex,
    _hmac.compare_digest: _m_compare_digest, secrets.compare_digest: _m_compare_digest,
    hashlib.new: _m_hashlib_new, _hmac.new: _m_hmac_new, _hmac.digest: _m_hmac_digest,
    hashlib.pbkdf2_hmac: _m_pbkdf2, _dt.datetime.fromtimestamp: _m_fromtimestamp,
    _ip.IPv6Address: _m_ipv6,
}
for _n in ("sha256", "sha1", "sha512", "sha384", "sha224", "md5", "sha3_256", "sha3_512"):
    MODELS[getattr(hashlib, _n)] = _hash_ctor(_n)

# always dispatched to the model (no symbolic argument needed to trigger)
TRACK_CONCRETE_HASHES = True   # concrete digests computed on a path are registered with the UF of their algorithm
def _m_memoryview(x):
    if isinstance(x, SymBytes):
        return x           # a view of the engine's byte sequence is the sequence itself (writes through the view reach the buffer)
    return memoryview(x)


ALWAYS = {io.BytesIO: _m_BytesIO, bytearray: _m_bytearray, memoryview: _m_memoryview, secrets.randbelow: _m_randbelow, secrets.token_bytes: _m_token_bytes,
          secrets.randbits: _m_randbits, os.urandom: _m_token_bytes}

for _n in ("sha256", "sha1", "sha512"):
    ALWAYS[getattr(hashlib, _n)] = MODELS[getattr(hashlib, _n)]
ALWAYS[hashlib.new] = _m_hashlib_new
ALWAYS[len] = _m_len          # the length of an unpadded binary rendering of a symbolic int is symbolic
ALWAYS[_hmac.new] = _m_hmac_new
ALWAYS[_hmac.digest] = _m_hmac_digest

_BUILTIN_METHOD = type(b"".join)
_LAZY_ITERABLES = (type(i for i in ()), map, zip, filter, type(iter([])), type(iter(())), type(reversed([])), enumerate)
_CONSUMERS = frozenset([bytes, bytearray, sum, min, max, sorted, tuple, list, set, frozenset])   # not any/all: their short-circuit keeps path counts down
STUBS: dict = {}  # harness-installed: callable -> replacement (hash / EC / randomness stubs)

_OK_BUILTINS = (isinstance, len, repr, print, id, type, iter, next, enumerate, zip, hash, getattr, setattr,
                hasattr, sorted, format, issubclass, callable, list, tuple, dict, set, frozenset, map, filter)


def _builtin_method(f, slf, name, args, kwargs):
    """Bound C-level method on a concrete receiver, called with a symbolic argument."""
    ts = type(slf)
    if isinstance(slf, BaseException) or ts.__module__ not in ("builtins", "io", "collections", "_io", "_collections"):
        return f(*args, **kwargs)   # inherited slot of a user-defined object: it only stores / forwards
    if ts is dict:
        if name == "get":
            return dict_get(slf, args[0], args[1] if len(args) > 1 else None)
        if name in ("setdefault", "pop", "__contains__", "update", "__setitem__"):
            return f(*args, **kwargs)   # hashes the key: concretizes (solver-driven case split)
    if ts is list:
        if name in ("append", "extend", "insert", "remove", "count", "index", "__contains__", "sort", "copy"):
            if name == "insert":
                return f(concretize(args[0]), *args[1:])
            if name in ("index", "count", "remove", "__contains__"):
                raise SxUnsupported(f"list.{name} with symbolic argument")
            return f(*args, **kwargs)
        if name == "pop":
            return f(concretize(args[0]))
    if ts in (set, frozenset):
        return f(*args, **kwargs)       # hashing concretizes
    if ts is str:
        if name == "join":
            return seq.str_join(slf, args[0])
        if name in ("startswith", "endswith", "find", "rfind", "__contains__", "index", "count", "split", "replace"):
            return getattr(SymStr.of(slf), name)(*args)
        if name == "format":
            return "<sym>"
    if ts in (bytes, bytearray):
        if name == "join":
            out = []
            for i, p in enumerate(list(args[0])):
                if i:
                    out.extend(slf)
                out.extend(as_symbytes(p).items)
            return mk_bytes(out)
        if ts is bytearray and name in ("extend", "append", "__iadd__"):
            raise SxUnsupported("concrete bytearray mutated with symbolic data (harness should hand in a SymByteArray)")
        if name in ("startswith", "endswith", "find", "rfind", "index", "count"):
            return getattr(SymBytes(list(slf)), name)(*args)
    if ts is int and name in ("to_bytes",):
        return lift(slf).to_bytes(*args, **kwargs) if False else int.to_bytes(slf, *[concretize(a) for a in args], **kwargs)
    raise SxUnsupported(f"builtin method {ts.__name__}.{name} with symbolic argument")


def call(f, *args, **kwargs):
    if STUBS:
        st = STUBS.get(f) if getattr(f, "__hash__", None) is not None else None
        if st is not None:
            return st(*args, **kwargs)
    try:
        m = ALWAYS.get(f)
        if m is not None:
            return m(*args, **kwargs)
        m = MODELS.get(f)
    except TypeError:
        m = None
    if args and type(f) is _BUILTIN_METHOD and f.__name__ == "join" and type(f.__self__) in (bytes, str, bytearray):
        args = (list(args[0]),) + args[1:]    # materialize generators so that symbolic parts are seen
    elif args and type(args[0]) in _LAZY_ITERABLES and f in _CONSUMERS:
        args = (list(args[0]),) + args[1:]    # bytes(x ^ y for ...), sum(... for ...): look inside the generator before deciding
    sym = any_sym(args, kwargs.values()) if (args or kwargs) else False
    if m is not None:
        if sym:
            return m(*args, **kwargs)
        return f(*args, **kwargs)
    if sym:
        if isinstance(f, type) and issubclass(f, _enum.Enum) and len(args) == 1 and type(args[0]) in (SymInt, SymBool):
            return _enum_call(f, args[0])
        tf = type(f).__name__
        if tf in ("builtin_function_or_method", "method-wrapper", "method_descriptor"):
            slf = getattr(f, "__self__", None)
            name = getattr(f, "__name__", "")
            if slf is not None and not isinstance(slf, type(sys)) and not isinstance(slf, type):
                return _builtin_method(f, slf, name, args, kwargs)
            if f not in _OK_BUILTINS:
                raise SxUnsupported(f"builtin {getattr(f, '__qualname__', f)} with symbolic argument")
        elif hasattr(f, "cache_info") and hasattr(f, "__wrapped__"):
            return f.__wrapped__(*args, **kwargs)   # never memoize symbolic arguments
    return f(*args, **kwargs)


class SymSet:
    """A set that holds symbolic members: membership and de-duplication are decided by (forking on) equality, not by hashing --
    hashing a symbolic value would enumerate its values one path each."""

    def __init__(self, items=()):
        self.items = []
        for x in items:
            self.add(x)

    @property
    def __class__(self):
        return set

    def add(self, x):
        for y in self.items:
            if x == y:
                return
        self.items.append(x)

    def update(self, *others):
        for o in others:
            for x in o:
                self.add(x)

    def __iter__(self):
        return iter(list(self.items))

    def __len__(self):
        return len(self.items)

    def __bool__(self):
        return bool(self.items)

    def __contains__(self, x):
        return bool(sor(*[x == y for y in self.items])) if self.items else False

    def __or__(self, o):
        r = SymSet(self.items)
        r.update(o)
        return r

    __ror__ = __or__

    def __eq__(self, o):
        o = list(o)
        return len(o) == len(self.items) and all(x in self for x in o)

    def __repr__(self):
        return f"<symset len={len(self.items)}>"


def setof(items):
    """{x for ...} / set(iterable): a real set unless a member is symbolic."""
    items = list(items)
    if any(type(x) in (SymInt, SymBool, SymBytes, SymByteArray, SymStr) or (type(x) is tuple and any_sym(x, ())) for x in items):
        return SymSet(items)
    return set(items)


def _m_set(*a):
    return setof(a[0]) if a else set()


MODELS[set] = _m_set
MODELS[frozenset] = _m_set


def fstr(*pieces):
    out, symbolic = [], False
    for p in pieces:
        if type(p) is str:
            out.append(p)
            continue
        value, conv, spec = p
        if type(value) is SymStr and conv in (-1, 115) and not spec:
            out.append(value)
            symbolic = True
            continue
        if type(value) is SymInt and spec == "b" and conv == -1 and len(pieces) == 1:
            from .seq import LazyBinStr
            return LazyBinStr(value)      # the unpadded binary rendering: its length is symbolic
        if conv == 114:
            value = repr(value)
        elif conv == 115:
            value = str(value) if not is_sym(value) else _m_str(value)
        elif conv == 97:
            value = ascii(value)
        out.append(format(value, spec))
    if not symbolic:
        return "".join(out)
    items = []
    for p in out:
        items.extend(SymStr.of(p).items)
    return SymStr.mk(items)


MERGE_CONDITIONALS = False     # harness opt-in (ex.merge_conditionals()): side-effect-free `a if c else b` becomes an if-then-else term


def ifexp(c, fa, fb):
    """`a if c else b` with a symbolic condition: an if-then-else term when both arms are values that can be merged, a fork otherwise.
    Only conditional expressions whose arms are syntactically free of calls are routed here (see Rewriter.visit_IfExp)."""
    tc = type(c)
    if not MERGE_CONDITIONALS or (tc is not SymBool and tc is not SymInt):
        return fa() if c else fb()
    cond = c if tc is SymBool else (c != 0)
    if type(cond) is not SymBool:
        return fa() if cond else fb()
    try:
        a = fa()
        b = fb()
    except (Exception, SxUnsupported):
        # an arm that cannot be evaluated on this path (guarded division, missing key, ...): decide the condition first, as Python would
        return fa() if bool(cond) else fb()
    return ite(cond, a, b)      # falls back to a fork when the arms cannot be merged into one term


def enter(name):
    executed.add(name)


# ---------------------------------------------------------------- transformer
class Rewriter(ast.NodeTransformer):
    def __init__(self, modname):
        self.modname = modname
        self.scope = []

    def _name(self, n):
        return ast.Name(id=n, ctx=ast.Load())

    def visit_FunctionDef(self, node):
        self.scope.append(node.name)
        self.generic_visit(node)
        qn = self.modname + "." + ".".join(self.scope)
        self.scope.pop()
        stmt = ast.Expr(ast.Call(self._name("__sx_enter__"), [ast.Constant(qn)], []))
        # keep docstring first
        idx = 1 if (node.body and isinstance(node.body[0], ast.Expr) and isinstance(getattr(node.body[0], "value", None), ast.Constant) and isinstance(node.body[0].value.value, str)) else 0
        node.body.insert(idx, stmt)
        return node

    visit_AsyncFunctionDef = visit_FunctionDef

    def visit_ClassDef(self, node):
        self.scope.append(node.name)
        self.generic_visit(node)
        self.scope.pop()
        return node

    def visit_Subscript(self, node):
        self.generic_visit(node)
        if isinstance(node.ctx, ast.Load):
            return ast.copy_location(ast.Call(self._name("__sx_getitem__"), [node.value, node.slice], []), node)
        return node

    def visit_Call(self, node):
        self.generic_visit(node)
        # super() must stay a direct call (zero-arg form needs __class__ cell)
        if isinstance(node.func, ast.Name) and node.func.id in ("super", "__sx_getitem__", "__sx_call__", "__sx_contains__", "__sx_ifexp__", "__sx_fstr__", "__sx_setof__", "locals", "globals", "vars"):
            return node
        return ast.copy_location(ast.Call(self._name("__sx_call__"), [node.func, *node.args], node.keywords), node)

    def visit_Compare(self, node):
        self.generic_visit(node)
        if len(node.ops) == 1 and isinstance(node.ops[0], (ast.In, ast.NotIn)):
            c = ast.Call(self._name("__sx_contains__"), [node.left, node.comparators[0]], [])
            if isinstance(node.ops[0], ast.NotIn):
                c = ast.Call(self._name("__sx_not__"), [c], [])
            return ast.copy_location(c, node)
        return node

    def visit_SetComp(self, node):
        self.generic_visit(node)
        lst = ast.ListComp(elt=node.elt, generators=node.generators)
        return ast.copy_location(ast.Call(self._name("__sx_setof__"), [lst], []), node)

    def visit_JoinedStr(self, node):
        """f-strings: a symbolic text value interpolated without a format spec must stay symbolic text (not its placeholder repr)."""
        self.generic_visit(node)
        if not any(isinstance(v, ast.FormattedValue) for v in node.values):
            return node
        pieces = []
        for v in node.values:
            if isinstance(v, ast.Constant):
                pieces.append(v)
            else:
                spec = v.format_spec if v.format_spec is not None else ast.Constant("")
                pieces.append(ast.Tuple([v.value, ast.Constant(v.conversion), spec], ast.Load()))
        return ast.copy_location(ast.Call(self._name("__sx_fstr__"), pieces, []), node)

    def visit_IfExp(self, node):
        pure = (ast.Constant, ast.Name, ast.Attribute, ast.Subscript, ast.BinOp, ast.UnaryOp, ast.Compare, ast.Tuple, ast.Load, ast.operator, ast.unaryop,
                ast.cmpop, ast.Slice, ast.BoolOp, ast.boolop, ast.expr_context)
        # judged on the source as written, before the arms' own sub-expressions are rewritten into dispatcher calls
        mergeable = all(isinstance(sub, pure) for arm in (node.body, node.orelse) for sub in ast.walk(arm))
        self.generic_visit(node)
        if not mergeable:
            return node       # a call (or anything else that may have an effect) in an arm: keep Python's own evaluation order
        lam = lambda e: ast.Lambda(args=ast.arguments(posonlyargs=[], args=[], kwonlyargs=[], kw_defaults=[], defaults=[]), body=e)  # noqa: E731
        return ast.copy_location(ast.Call(self._name("__sx_ifexp__"), [node.test, lam(node.body), lam(node.orelse)], []), node)

    def visit_AnnAssign(self, node):
        # do not rewrite annotations
        if node.value is not None:
            node.value = self.visit(node.value)
        node.target = self.visit(node.target)
        return node

    def visit_arguments(self, node):
        for i, d in enumerate(node.defaults):
            node.defaults[i] = self.visit(d)
        for i, d in enumerate(node.kw_defaults):
            if d is not None:
                node.kw_defaults[i] = self.visit(d)
        return node


def instrument_source(src, filename, modname):
    tree = ast.parse(src, filename)
    tree = Rewriter(modname).visit(tree)
    ast.fix_missing_locations(tree)
    return compile(tree, filename, "exec", dont_inherit=True)


class _Loader(importlib.machinery.SourceFileLoader):
    def source_to_code(self, data, path, *, _optimize=-1):
        return instrument_source(data, path, self.name)

    def get_code(self, fullname):
        # never use cached bytecode
        src = self.get_data(self.get_filename(fullname))
        return self.source_to_code(src, self.get_filename(fullname))

    def exec_module(self, module):
        module.__dict__["__sx_getitem__"] = getitem
        module.__dict__["__sx_call__"] = call
        module.__dict__["__sx_contains__"] = contains
        module.__dict__["__sx_not__"] = snot
        module.__dict__["__sx_enter__"] = enter
        module.__dict__["__sx_ifexp__"] = ifexp
        module.__dict__["__sx_fstr__"] = fstr
        module.__dict__["__sx_setof__"] = setof
        super().exec_module(module)


class _Finder(importlib.abc.MetaPathFinder):
    def __init__(self, prefixes):
        self.prefixes = prefixes

    def find_spec(self, fullname, path, target=None):
        if not any(fullname == p or fullname.startswith(p + ".") for p in self.prefixes):
            return None
        spec = importlib.machinery.PathFinder.find_spec(fullname, path)
        if spec is None or not isinstance(spec.loader, importlib.machinery.SourceFileLoader):
            return spec
        spec.loader = _Loader(spec.loader.name, spec.loader.path)
        return spec


def install(prefixes=("btclib",)):
    for m in list(sys.modules):
        if any(m == p or m.startswith(p + ".") for p in prefixes):
            raise RuntimeError(f"{m} imported before instrumentation")
    sys.meta_path.insert(0, _Finder(prefixes))
