"""Concrete-mode environment: table-driven stand-ins for the symbolic stubs.

When a replay/cross-validation request carries UF tables for hashlib-level
functions (sha256, hmac-sha512, ...) or values for the randomness stubs, the
corresponding stdlib entry points are patched for the duration of the run. A
table miss falls back to the real function, so unrelated code is unaffected.
"""
import contextlib
import hashlib
import hmac
import os
import secrets
import sys

_REAL = dict(sha256=hashlib.sha256, sha1=hashlib.sha1, sha512=hashlib.sha512, new=hashlib.new,
             hmac_new=hmac.new, hmac_digest=hmac.digest, pbkdf2=hashlib.pbkdf2_hmac,
             randbelow=secrets.randbelow, token_bytes=secrets.token_bytes, randbits=secrets.randbits,
             urandom=os.urandom)


def _frame(*parts):
    out = b""
    for p in parts:
        p = bytes(p)
        out += bytes([len(p) >> 8 & 255, len(p) & 255]) + p
    return out


class _TableHash:
    def __init__(self, name, tables, data=b""):
        self.name = name
        self._t = tables
        self._h = _REAL["new"](name)
        self.digest_size = self._h.digest_size
        self.block_size = self._h.block_size
        self._data = bytes(data)

    def update(self, d):
        self._data += bytes(d)

    def copy(self):
        return _TableHash(self.name, self._t, self._data)

    def digest(self):
        hit = self._t.get(self.name, {}).get(self._data)
        if hit is not None:
            return hit
        return _REAL["new"](self.name, self._data).digest()

    def hexdigest(self):
        return self.digest().hex()


class _TableHmac:
    def __init__(self, tables, key, msg, alg):
        self._t, self._key, self._alg = tables, bytes(key), alg
        self._data = bytes(msg) if msg is not None else b""
        self.name = "hmac-" + alg
        self.digest_size = _REAL["new"](alg).digest_size
        self.block_size = _REAL["new"](alg).block_size

    def update(self, d):
        self._data += bytes(d)

    def copy(self):
        return _TableHmac(self._t, self._key, self._data, self._alg)

    def digest(self):
        hit = self._t.get(self.name, {}).get(_frame(self._key, self._data))
        if hit is not None:
            return hit
        return _REAL["hmac_new"](self._key, self._data, self._alg).digest()

    def hexdigest(self):
        return self.digest().hex()


def _alg(digestmod):
    if isinstance(digestmod, str):
        return digestmod.lower()
    try:
        return digestmod().name
    except Exception:
        return getattr(digestmod, "__name__", "sha256").replace("openssl_", "")


def _patch_everywhere(ex, target, repl):
    """Swap `target` for `repl` in btclib module globals and in function defaults."""
    import types
    undo = []
    for mname, mod in list(sys.modules.items()):
        if mod is None or not (mname == "btclib" or mname.startswith("btclib.")):
            continue
        for k, v in list(mod.__dict__.items()):
            if v is target:
                mod.__dict__[k] = repl
                undo.append(("g", mod.__dict__, k, v))
            fns = []
            if isinstance(v, types.FunctionType):
                fns.append(v)
            elif isinstance(v, type) and getattr(v, "__module__", "") == mname:
                fns.extend(f for f in v.__dict__.values() if isinstance(f, types.FunctionType))
                fns.extend(f.__func__ for f in v.__dict__.values() if isinstance(f, (staticmethod, classmethod)))
            for f in fns:
                if f.__defaults__ and any(d is target for d in f.__defaults__):
                    undo.append(("d", f, None, f.__defaults__))
                    f.__defaults__ = tuple(repl if d is target else d for d in f.__defaults__)
                if f.__kwdefaults__ and any(d is target for d in f.__kwdefaults__.values()):
                    undo.append(("k", f, None, dict(f.__kwdefaults__)))
                    f.__kwdefaults__ = {a: (repl if d is target else d) for a, d in f.__kwdefaults__.items()}
    return undo


@contextlib.contextmanager
def patched(ex):
    tables = {n: {bytes.fromhex(a): bytes.fromhex(o) for a, o in rows} for n, rows in ex.uf_tables.items()}
    undo = []
    attr_undo = []
    hash_names = [n for n in tables if n in ("sha256", "sha1", "sha512", "ripemd160")]
    need_hmac = any(n.startswith("hmac-") for n in tables)
    need_pbkdf = any(n.startswith("pbkdf2-") for n in tables)
    need_rand = any(k.startswith(("rand!", "randb!")) for k in ex.inputs)

    def setattr_(mod, name, val):
        attr_undo.append((mod, name, getattr(mod, name)))
        setattr(mod, name, val)

    try:
        for n in hash_names:
            if n == "ripemd160":
                continue
            ctor = (lambda data=b"", _n=n, **kw: _TableHash(_n, tables, data))
            ctor.__name__ = "openssl_" + n
            undo += _patch_everywhere(ex, _REAL[n], ctor)
            setattr_(hashlib, n, ctor)
        if hash_names:
            newf = (lambda name, data=b"", **kw: _TableHash(name.lower(), tables, data))
            undo += _patch_everywhere(ex, _REAL["new"], newf)
            setattr_(hashlib, "new", newf)
        if need_hmac:
            hn = (lambda key, msg=None, digestmod="": _TableHmac(tables, key, msg, _alg(digestmod)))
            hd = (lambda key, msg, digest: _TableHmac(tables, key, msg, _alg(digest)).digest())
            setattr_(hmac, "new", hn)
            setattr_(hmac, "digest", hd)
            undo += _patch_everywhere(ex, _REAL["hmac_new"], hn)
            undo += _patch_everywhere(ex, _REAL["hmac_digest"], hd)
        if need_pbkdf:
            def pb(name, password, salt, iterations, dklen=None):
                hit = tables.get(f"pbkdf2-{name}-{iterations}", {}).get(_frame(password, salt))
                return hit if hit is not None else _REAL["pbkdf2"](name, password, salt, iterations, dklen)
            setattr_(hashlib, "pbkdf2_hmac", pb)
            undo += _patch_everywhere(ex, _REAL["pbkdf2"], pb)
        if need_rand:
            def randbelow(n):
                return ex.fresh_var("rand", 0, n - 1)

            def token_bytes(n=32):
                return bytes(ex.fresh_var("randb", 0, 255) for _ in range(n))

            def randbits(k):
                return ex.fresh_var("rand", 0, (1 << k) - 1)
            for name, f in (("randbelow", randbelow), ("token_bytes", token_bytes), ("randbits", randbits)):
                setattr_(secrets, name, f)
                undo += _patch_everywhere(ex, _REAL[name], f)
            setattr_(os, "urandom", token_bytes)
            undo += _patch_everywhere(ex, _REAL["urandom"], token_bytes)
        yield
    finally:
        for mod, name, val in reversed(attr_undo):
            setattr(mod, name, val)
        for kind, a, k, v in reversed(undo):
            if kind == "g":
                a[k] = v
            elif kind == "d":
                a.__defaults__ = v
            else:
                a.__kwdefaults__ = v
