"""Run one obligation instance symbolically; cross-validate every path concretely.

Executed inside a job-worker process (sx.jobworker) in which btclib is the
instrumented import of /repo's working tree.
"""
from __future__ import annotations

import importlib
import json
import os
import subprocess
import sys
import time
import traceback

import z3

from . import api, core, instr
from .api import Refused
from .core import SymBool, SymInt, SxAbort, SxUnsupported

MAX_SAMPLES = 4
MAX_CEX = 3


class ConcreteWorker:
    """Plain-library twin process: runs a harness on concrete inputs."""

    def __init__(self):
        self.p = None

    def start(self):
        env = dict(os.environ)
        env["SX_MODE"] = "conc"
        self.p = subprocess.Popen([sys.executable, "-m", "sx.worker"], stdin=subprocess.PIPE, stdout=subprocess.PIPE,
                                  cwd=os.path.dirname(os.path.dirname(os.path.abspath(__file__))), env=env, text=True)

    def run(self, req):
        if self.p is None or self.p.poll() is not None:
            self.start()
        self.p.stdin.write(json.dumps(req) + "\n")
        self.p.stdin.flush()
        line = self.p.stdout.readline()
        if not line:
            self.p = None
            return {"kind": "worker_died"}
        return json.loads(line)

    def close(self):
        if self.p is not None:
            try:
                self.p.stdin.close()
                self.p.wait(timeout=5)
            except Exception:
                self.p.kill()
            self.p = None


CW = ConcreteWorker()


def _mval(m, x):
    """Value of a symbolic/concrete scalar under model m."""
    t = type(x)
    if t is SymInt:
        if x._e is None:
            return x.lo
        return m.eval(x._e, model_completion=True).as_signed_long()
    if t is SymBool:
        return z3.is_true(m.eval(x.e, model_completion=True))
    return x


def _inputs_from_model(ex, m):
    out = {}
    for k, v in ex.inputs.items():
        out[k] = m.eval(v, model_completion=True).as_signed_long()
    return out


def _uf_tables(ex, m):
    t = {}
    for name, a, o in ex.uf_calls:
        arg = bytes(_mval(m, i) & 255 for i in a.items).hex()
        out = bytes(_mval(m, i) & 255 for i in o.items).hex()
        t.setdefault(name, [])
        if [arg, out] not in t[name]:
            t[name].append([arg, out])
    return t


def _short(d, n=24):
    """Compact rendering of an inputs dict for samples."""
    out = {}
    groups = {}
    for k, v in d.items():
        if "!" in k:
            continue   # engine-introduced symbols (UF outputs, inverse witnesses, stub randomness): kept in the replay file, not shown
        if len(k) > 3 and k[-3:].isdigit():
            groups.setdefault(k[:-3], []).append((int(k[-3:]), v))
        else:
            out[k] = v
    for g, items in groups.items():
        items.sort()
        if all(0 <= v <= 255 for _, v in items):
            out[g] = bytes(v for _, v in items).hex()
        else:
            out[g] = [v for _, v in items]
    if len(out) > n:
        out = dict(list(out.items())[:n])
    return out


def run_instance(modname, obname, prop, params, cfg):
    mod = importlib.import_module(modname)
    ob = api.REGISTRY[(prop, obname)]
    t0 = time.time()
    ex = core.Explorer(max_decisions=ob.max_decisions, max_paths=ob.max_paths, timeout_ms=ob.query_timeout_ms)
    res = dict(prop=prop, ob=obname, params=params, status="pass", paths=0, ok_paths=0, refused_paths=0, exc_paths=0,
               aborted=0, decisions=0, claims=0, discharged=0, validated=0, cex=[], unsupported=[], mismatches=[],
               unknown=[], samples=[], known=[], refusal_tags={})
    instr.executed.clear()
    deadline = t0 + ob.timeout * 0.95
    validate = ob.validate and cfg.get("validate", True)
    known = [k for k in cfg.get("known_findings", []) if k.get("property") == prop and k.get("ob") in (obname, "*")]

    def concrete(inputs, uf):
        return CW.run(dict(module=modname, prop=prop, ob=obname, params=params, inputs=inputs, uf=uf))

    def record_cex(claim, m, kind):
        inputs = _inputs_from_model(ex, m)
        uf = _uf_tables(ex, m)
        c = concrete(inputs, uf)
        reproduced = False
        if kind == "claim":
            reproduced = c.get("kind") in ("ok", "refused") and c.get("claims", {}).get(claim) is False
            if not reproduced and c.get("kind") == "exc":
                reproduced = True   # the plain library fails even harder on this input
                claim = f"{claim} (concrete run raised {c.get('exc')})"
        else:
            reproduced = c.get("kind") == "exc" and c.get("exc_class") == kind
        rec = dict(claim=claim, inputs=inputs, uf=uf, concrete=c, reproduced=reproduced, shown=_short(inputs))
        res["cex"].append(rec)
        return rec

    def on_path(ex, outcome):
        res["paths"] += 1
        res["decisions"] += len(ex.decisions)
        if time.time() > deadline:
            raise TimeoutError("instance wall budget exhausted")
        kind, val = outcome
        if kind == "unsupported":
            if len(res["unsupported"]) < 5:
                res["unsupported"].append(repr(val)[:300])
            return
        # model of the path condition: the concrete twin of this path
        r = ex.check()
        if r != z3.sat:
            if r == z3.unsat:
                res["aborted"] += 1
                return
            res["unknown"].append("path condition unknown")
            return
        pm = ex.solver.model()
        if kind == "exc":
            e = val
            res["exc_paths"] += 1
            cls = type(e).__name__
            if len(res["cex"]) < MAX_CEX:
                rec = record_cex(f"no_unexpected_exception[{cls}]", pm, cls)
                rec["exc"] = f"{cls}: {e}"[:300]
                rec["trace"] = "".join(traceback.format_tb(e.__traceback__)[-9:])[-3500:]
            else:
                res["cex"].append(dict(claim=f"no_unexpected_exception[{cls}]", reproduced=None, skipped=True))
            return
        if isinstance(val, Refused):
            tag, claims, exp_kind = val.tag, val.claims, "refused"
            res["refused_paths"] += 1
            res["refusal_tags"][tag] = res["refusal_tags"].get(tag, 0) + 1
        else:
            tag, claims, exp_kind = None, (val or {}), "ok"
            res["ok_paths"] += 1
        failed = False
        # implicit obligation of every harness: this path ended in a value or an allowed refusal, not in a foreign exception
        res["claims"] += 1
        res["discharged"] += 1
        for cn, c in claims.items():
            res["claims"] += 1
            v, m = ex.prove(c)
            if v == "valid":
                res["discharged"] += 1
            elif v == "unknown":
                res["unknown"].append(f"{cn}: solver unknown")
            else:
                failed = True
                # known findings: exclude their input region and ask again
                rec = None
                extra = []
                while v == "cex":
                    inputs = _inputs_from_model(ex, m)
                    hit = None
                    for kf in known:
                        if kf.get("claim") in (cn, "*") and _kf_matches(kf, inputs, params):
                            hit = kf
                            break
                    if hit is None:
                        break
                    if hit["id"] not in res["known"]:
                        res["known"].append(hit["id"])
                    pred = _kf_symbolic(hit, ex, params)
                    if pred is None:
                        v = "valid"   # finding covers the whole instance
                        break
                    extra.append(z3.Not(pred))
                    cc = c.e if isinstance(c, SymBool) else z3.BoolVal(bool(c))
                    r2 = ex.check(z3.Not(cc), *extra)
                    if r2 == z3.unsat:
                        v = "valid"
                    elif r2 == z3.sat:
                        m = ex.solver.model()
                    else:
                        v = "unknown"
                        res["unknown"].append(f"{cn}: solver unknown after excluding known finding")
                if v == "cex":
                    if len([x for x in res["cex"] if not x.get("skipped")]) < MAX_CEX:
                        record_cex(cn, m, "claim")
                    else:
                        res["cex"].append(dict(claim=cn, reproduced=None, skipped=True))
                elif v == "valid":
                    res["discharged"] += 1
        if failed:
            return
        inputs = _inputs_from_model(ex, pm)
        if len(res["samples"]) < MAX_SAMPLES and not any(s["outcome"] == (tag or "ok") for s in res["samples"]):
            res["samples"].append(dict(outcome=tag or "ok", inputs=_short(inputs), decisions=len(ex.decisions)))
        if validate:
            c = concrete(inputs, _uf_tables(ex, pm))
            good = c.get("kind") == exp_kind and (exp_kind != "refused" or c.get("tag") == tag)
            if good:
                for cn, cv in claims.items():
                    if isinstance(cv, SymBool):
                        ev = pm.eval(cv.e, model_completion=True)
                        if not (z3.is_true(ev) or z3.is_false(ev)):
                            continue      # not evaluable under this model (uninterpreted arithmetic): nothing to compare
                        sv = z3.is_true(ev)
                        if core.ABSTRACT_BITS is not None or core.ABSTRACT_DIV_BITS is not None:
                            continue      # the model interprets the abstracted operators arbitrarily: its verdict on the claim is not the real one
                    else:
                        sv = _mval(pm, cv) if isinstance(cv, SymInt) else bool(cv)
                    if c.get("claims", {}).get(cn) is not bool(sv):
                        good = False
            if good:
                res["validated"] += 1
            elif len(res["mismatches"]) < 5:
                res["mismatches"].append(dict(expected=dict(kind=exp_kind, tag=tag), concrete=c, inputs=_short(inputs)))

    def h(ex):
        instr.STUBS.clear()
        instr.reset_hash_ufs()
        instr.HASH_INJECTIVE = False
        core.ABSTRACT_BITS = None
        core.ABSTRACT_DIV_BITS = None
        core.INT_FIRST = False
        instr.RANDOM_SYMBOLIC = True
        core.DIV_WITNESS = True
        instr.MERGE_CONDITIONALS = False
        return ob.fn(ex, **params)

    try:
        st = ex.explore(h, on_path)
        res["aborted"] += st["aborted"]
        if st.get("budget"):
            res["unknown"].append(st["budget"])
    except TimeoutError as e:
        res["unknown"].append(str(e))
    except BaseException as e:   # engine failure
        res["status"] = "error"
        res["error"] = f"{type(e).__name__}: {e}\n" + traceback.format_exc()[-2500:]
    finally:
        instr.STUBS.clear()
    res["queries"] = ex.queries
    res["solver_s"] = round(ex.solver_time, 3)
    res["wall_s"] = round(time.time() - t0, 3)
    res["functions"] = sorted(instr.executed)
    if res["status"] != "error":
        real = [c for c in res["cex"] if c.get("reproduced")]
        bogus = [c for c in res["cex"] if c.get("reproduced") is False]
        if bogus:
            res["status"] = "error"
            res["error"] = "counterexample did not reproduce on the plain library (harness/engine fault): " + json.dumps(bogus[0], default=str)[:1500]
        elif real:
            res["status"] = "violation"
        elif res["mismatches"]:
            res["status"] = "error"
            res["error"] = "ENGINE-MISMATCH symbolic vs concrete: " + json.dumps(res["mismatches"][0], default=str)[:1500]
        elif res["unsupported"] or res["unknown"]:
            res["status"] = "inconclusive"
        elif res["ok_paths"] < ob.min_ok:
            res["status"] = "inconclusive"
            res["unknown"].append(f"vacuous: only {res['ok_paths']} path(s) reached a claim (need {ob.min_ok})")
    return res


def _kf_env(inputs, params):
    env = dict(inputs=inputs, i=inputs, p=params, params=params)
    return env


def _kf_matches(kf, inputs, params):
    w = kf.get("where")
    if not w:
        return True
    try:
        return bool(eval(w, {"__builtins__": {}}, _kf_env(inputs, params)))  # noqa: S307 - file is committed, never written at run time
    except Exception:
        return False


def _kf_symbolic(kf, ex, params):
    """The finding's input predicate as a z3 term over the path's input variables (None = whole instance)."""
    w = kf.get("where")
    if not w:
        return None

    class _In(dict):
        def __missing__(self, k):
            raise KeyError(k)
    sym_inputs = _In()
    for k, v in ex.inputs.items():
        sym_inputs[k] = SymInt(v, -(1 << (v.size() - 1)), (1 << (v.size() - 1)) - 1)
    try:
        r = eval(w, {"__builtins__": {}}, _kf_env(sym_inputs, params))  # noqa: S307
    except Exception:
        return None
    if isinstance(r, SymBool):
        return r.e
    return z3.BoolVal(bool(r))
