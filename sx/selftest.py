"""Model unit tests: each builtin model of the engine is compared with CPython on boundary values.

For every sample the symbolic inputs are pinned to the sample by an assumption,
the operation is executed on the proxies, and the value of the symbolic result
under the solver's model must equal what CPython computes (same exception class
when CPython raises). Run by `vf setup`; a failure aborts (exit 2).
"""
import io
import itertools
import operator
import sys
import time

import z3

from . import api, core, instr, seq
from .core import Explorer, SymBool, SymInt, sand
from .seq import SymBytes, SymStr, SymBytesIO

api._install_explorer_api()
FAIL = []
N = [0]


def _eval(ex, m, r):
    if isinstance(r, SymInt):
        return r.lo if r._e is None else m.eval(r._e, model_completion=True).as_signed_long()
    if isinstance(r, SymBool):
        return z3.is_true(m.eval(r.e, model_completion=True))
    if isinstance(r, SymStr):
        return "".join(chr(_eval(ex, m, c)) for c in r.items)
    if isinstance(r, SymBytes):
        return bytes(_eval(ex, m, c) for c in r.items)
    if isinstance(r, (tuple, list)):
        return type(r)(_eval(ex, m, c) for c in r)
    return r


def case(name, fn, doms, samples):
    """fn(*args) run on proxies vs on ints for every sample tuple."""
    for vals in samples:
        N[0] += 1
        try:
            want = ("v", fn(*vals))
        except Exception as e:  # noqa: BLE001
            want = ("e", type(e).__name__)
        got = []

        def h(ex):
            xs = []
            for i, ((lo, hi), v) in enumerate(zip(doms, vals)):
                x = ex.var(f"x{i}", lo, hi)
                ex.assume(x == v)
                xs.append(x)
            return fn(*xs)

        def on_path(ex, outcome):
            k, val = outcome
            if k == "ok":
                assert ex.check() == z3.sat
                got.append(("v", _eval(ex, ex.solver.model(), val)))
            elif k == "exc":
                got.append(("e", type(val).__name__))
            else:
                got.append(("unsupported", repr(val)))
        ex = Explorer(timeout_ms=20000)
        ex.explore(h, on_path)
        if got != [want]:
            FAIL.append(f"{name}{vals}: python={want} engine={got}")


def bsamples(lo, hi):
    c = {lo, hi, 0, 1, -1, 2, -2, 127, 128, 255, 256, -128, -129, 0x7FFF, 0x8000, 0xFFFF, 0x10000, lo + 1, hi - 1, (lo + hi) // 2, 3, 5, -7, 1000003}
    return sorted(v for v in c if lo <= v <= hi)


def main():
    t0 = time.time()
    D = (-(1 << 40), 1 << 40)
    S = bsamples(*D)
    pairs = list(itertools.product(S[::3], S[1::3])) + list(itertools.product(S[1::4], S[::5]))
    for name, op in [("add", operator.add), ("sub", operator.sub), ("mul", operator.mul), ("floordiv", operator.floordiv),
                     ("mod", operator.mod), ("and", operator.and_), ("or", operator.or_), ("xor", operator.xor),
                     ("lt", operator.lt), ("le", operator.le), ("eq", operator.eq), ("ne", operator.ne), ("gt", operator.gt), ("ge", operator.ge),
                     ("divmod", lambda a, b: tuple(divmod(a, b)))]:
        case(name, op, [D, D], pairs)
    sh = [(a, k) for a in S for k in (0, 1, 7, 8, 31, 63)]
    case("lshift", operator.lshift, [D, (-1, 64)], sh + [(5, -1)])
    case("rshift", operator.rshift, [D, (-1, 64)], sh + [(5, -1)])
    case("neg", operator.neg, [D], [(a,) for a in S])
    case("abs", abs, [D], [(a,) for a in S])
    case("invert", operator.invert, [D], [(a,) for a in S])
    case("bit_length", lambda a: a.bit_length(), [D], [(a,) for a in S])
    case("bool", lambda a: True if a else False, [D], [(a,) for a in S])
    for order in ("big", "little"):
        for n in (1, 2, 4, 5):
            case(f"to_bytes{n}{order}", lambda a, n=n, order=order: a.to_bytes(n, order), [D], [(a,) for a in S])
            case(f"to_bytes_signed{n}{order}", lambda a, n=n, order=order: a.to_bytes(n, order, signed=True), [D], [(a,) for a in S])
    B = (0, 255)
    bs = [(0, 0, 0), (255, 255, 255), (128, 0, 0), (0, 0, 128), (127, 255, 255), (1, 2, 3), (0, 128, 0), (0x80, 0xFF, 0x7F)]
    for order in ("big", "little"):
        for signed in (False, True):
            case(f"from_bytes{order}{signed}", lambda a, b, c, o=order, s=signed: instr.call(int.from_bytes, instr.call(bytes, [a, b, c]), o, signed=s), [B, B, B], bs)
    case("pow_mod", lambda a, m: instr.call(pow, a, 5, m), [D, (1, 1000)], [(a, m) for a in S[::3] for m in (1, 2, 7, 13, 1000)])
    case("pow_inv", lambda a: instr.call(pow, a, -1, 13), [D], [(a,) for a in (0, 1, 2, 12, 13, 14, -1, 26, 100)])
    case("min", lambda a, b: instr.call(min, a, b), [D, D], pairs[::5])
    case("max", lambda a, b: instr.call(max, a, b), [D, D], pairs[::5])
    # bytes
    mk = lambda *xs: instr.call(bytes, list(xs))  # noqa: E731
    case("bytes_eq", lambda a, b, c: mk(a, b, c) == b"\x01\x02\x03", [B, B, B], bs)
    case("bytes_lt", lambda a, b, c: mk(a, b) < mk(c, 1), [B, B, B], bs + [(1, 1, 1), (1, 0, 1), (1, 2, 1)])
    case("bytes_le_len", lambda a, b, c: mk(a, b) <= mk(c), [B, B, B], bs + [(1, 1, 1)])
    case("bytes_slice", lambda a, b, c: mk(a, b, c)[1:] + mk(a, b, c)[::-1] + mk(a)[5:], [B, B, B], bs)
    case("bytes_index", lambda a, b, i: instr.getitem(mk(a, b, 7), i), [B, B, (-4, 3)], [(1, 2, i) for i in range(-4, 4)])
    case("bytes_startswith", lambda a, b, c: mk(a, b, c).startswith(b"\x00\x80"), [B, B, B], bs)
    case("bytes_in", lambda a, b, c: instr.contains(a, mk(b, c)), [B, B, B], bs + [(3, 2, 3)])
    case("table_index", lambda i: instr.getitem([5, 9, 2, 7], i), [(-5, 4)], [(i,) for i in range(-5, 5)])
    case("dict_index", lambda i: instr.getitem({1: 10, 5: 50, 7: 70}, i), [(0, 8)], [(i,) for i in range(0, 9)])
    case("in_set", lambda i: instr.contains(i, {1, 5, 9}), [(0, 10)], [(i,) for i in range(0, 11)])
    case("in_range", lambda i: instr.contains(i, range(3, 7)), [(0, 10)], [(i,) for i in range(0, 11)])
    lin = [0, 0x3B6A57B2, 0x26508E6D, 0x3B6A57B2 ^ 0x26508E6D]
    case("linear_table", lambda i: instr.getitem(lin, i), [(0, 3)], [(i,) for i in range(4)])
    case("bytes_hex", lambda a, b, c: mk(a, b, c).hex(), [B, B, B], bs + [(0x0a, 0xa0, 0x9f), (0x99, 0x10, 0xf0)])
    case("bytes_hex_upper", lambda a, b, c: mk(a, b, c).hex().upper(), [B, B, B], bs + [(0x0a, 0xa0, 0x9f)])
    case("bytes_hex_fromhex", lambda a, b, c: instr.call(bytes.fromhex, mk(a, b, c).hex()), [B, B, B], bs + [(0x0a, 0xa0, 0x9f)])
    case("set_of_ints", lambda a, b, c: (len(instr.setof([a, b, c])), sorted(instr.setof([a, b, c])), instr.contains(c, instr.setof([a, b]))), [B, B, B],
         bs + [(1, 1, 1), (1, 2, 1), (2, 1, 1), (3, 3, 4)])
    case("set_of_bytes", lambda a, b, c: len(instr.setof([mk(a, b), mk(b, c), mk(a, b)])), [B, B, B], bs + [(1, 1, 1), (1, 2, 1)])
    def symkeys(a, b, c):
        get = lambda d, k, df: d.get(k, df) if type(k) is bytes else instr.dict_get(d, k, df)  # noqa: E731  (the dispatcher routes only symbolic keys there)
        d = {}
        d[mk(a, 7)] = 1
        d[mk(b, 7)] = get(d, mk(b, 7), 0) + 1
        return get(d, mk(c, 7), 0), len(d)
    case("dict_symbolic_stored_keys", symkeys, [B, B, B], [(1, 1, 1), (1, 2, 1), (1, 2, 2), (1, 2, 3), (5, 5, 6)])
    t1 = [5, 9, 2, 7, 0, 3]
    t2 = [4, 40, 2, 5, 44, 0, 6, 3, 8, 1]
    case("table_composition", lambda i: instr.getitem(t2, instr.getitem(t1, i)), [(0, 5)], [(i,) for i in range(6)])
    inv = [t1.index(v) if v in t1 else 99 for v in range(10)]
    case("table_inverse_composition", lambda i: instr.getitem(inv, instr.getitem(t1, i)) * 3 + 1, [(0, 5)], [(i,) for i in range(6)])
    # BytesIO
    def bio(a, b, n):
        s = instr.call(io.BytesIO, mk(a, b, 3, 4))
        x = s.read(n)
        return (len(x), x, s.tell(), s.read())
    case("bytesio", bio, [B, B, (-1, 6)], [(9, 8, n) for n in range(-1, 7)])
    # str
    C = (0, 127)
    ms = lambda *xs: SymStr.mk(list(xs)) if any(isinstance(x, SymInt) for x in xs) else "".join(chr(x) for x in xs)  # noqa: E731
    ss = [(65, 98, 49), (49, 49, 49), (122, 90, 64), (97, 91, 123), (0, 127, 96), (113, 49, 112)]
    case("str_fromhex", lambda a, b, c: instr.call(bytes.fromhex, ms(a, b, c, 0x37)), [C, C, C],
         [(48, 57, 97), (102, 65, 70), (103, 48, 48), (47, 48, 48), (58, 48, 48), (64, 48, 48), (71, 48, 48), (96, 48, 48), (48, 48, 0)])
    case("str_fromhex_odd", lambda a, b, c: instr.call(bytes.fromhex, ms(a, b, c)), [C, C, C], [(48, 57, 97), (102, 65, 70)])
    case("str_lower", lambda a, b, c: ms(a, b, c).lower(), [C, C, C], ss)
    case("str_upper", lambda a, b, c: ms(a, b, c).upper(), [C, C, C], ss)
    case("str_rfind", lambda a, b, c: ms(a, b, c).rfind("1"), [C, C, C], ss)
    case("str_find", lambda a, b, c: ms(a, b, c).find("1"), [C, C, C], ss)
    case("str_eq", lambda a, b, c: ms(a, b, c) == "Ab1", [C, C, C], ss)
    case("str_ord", lambda a: instr.call(ord, ms(a)), [C], [(a,) for a in (0, 65, 127)])
    case("str_in", lambda a: instr.contains(ms(a), "qpzry9x8"), [C], [(a,) for a in (113, 56, 49, 0)])
    case("str_encode", lambda a, b: ms(a, b).encode("ascii"), [C, C], [(65, 66), (0, 127)])
    # binary renderings: f"{x:b}" (symbolic length), zfill, int(s, 2), and the mixed-sign addition that once narrowed an operand
    W = (0, 1023)
    ws = [(0,), (1,), (2,), (511,), (512,), (1023,), (5,), (680,)]
    case("fbin_zfill", lambda x: instr.fstr((x, -1, "b")).zfill(12) if isinstance(x, SymInt) else f"{x:b}".zfill(12), [W], ws)
    case("fbin_len", lambda x: instr.call(len, instr.fstr((x, -1, "b"))) if isinstance(x, SymInt) else len(f"{x:b}"), [W], ws)
    case("int_base2", lambda x: instr.call(int, (instr.fstr((x, -1, "b")).zfill(11) if isinstance(x, SymInt) else f"{x:b}".zfill(11))[3:], 2), [W], ws)
    case("int_base2_bad", lambda a: instr.call(int, ms(49, a, 48), 2), [C], [(48,), (49,), (50,), (65,), (122,)])
    case("add_mixed_sign", lambda a: (a - 80) + 32, [(0, 96)], [(0,), (96,), (80,), (48,), (47,)])
    # closed forms decided by the solver rather than sampled
    ex = Explorer(timeout_ms=60000)
    ex.begin([])
    core.CUR = ex
    x = ex.var("x", -(1 << 9), (1 << 9) - 1)
    y = ex.var("y", -(1 << 4), (1 << 4) - 1)
    ex.assume_z3((y != 0).e)
    q, r = x // y, x % y
    for nm, cl in [("divmod identity", q * y + r == x), ("mod sign/range", core.ite(y > 0, sand(r >= 0, r < y), sand(r <= 0, r > y))),
                   ("shift is mul", (x << 3) == x * 8), ("rshift is floordiv", (x >> 5) == x // 32),
                   ("to/from bytes", instr.call(int.from_bytes, (x % (1 << 11)).to_bytes(2, "little"), "little") == x % (1 << 11))]:
        N[0] += 1
        v, _ = ex.prove(cl)
        if v != "valid":
            FAIL.append(f"closed form '{nm}': {v}")
    print(f"sx selftest: {N[0]} model cases, {len(FAIL)} failures, {time.time() - t0:.1f}s")
    for f in FAIL[:40]:
        print("  FAIL", f)
    return 2 if FAIL else 0


if __name__ == "__main__":
    sys.exit(main())
