"""Concrete twin: runs harnesses against the plain (uninstrumented) btclib from /repo.

Protocol: one JSON request per line on stdin, one JSON outcome per line on stdout.
"""
import importlib
import json
import os
import sys
import traceback

os.environ.setdefault("BTCLIB_NO_LIBSECP256K1", "1")
sys.setrecursionlimit(3000)


def run(req):
    from sx import api
    api.MODE = "conc"
    importlib.import_module(req["module"])
    ob = api.REGISTRY[(req["prop"], req["ob"])]
    ex = api.ConcreteEx(req.get("inputs", {}), req.get("uf", {}))
    from sx import concrete_env
    out = {}
    try:
        with concrete_env.patched(ex):
            try:
                r = ob.fn(ex, **req.get("params", {}))
            except api.AssumeFailed as e:
                return {"kind": "assume_failed", "msg": str(e)}
            except Exception as e:  # noqa: BLE001
                return {"kind": "exc", "exc_class": type(e).__name__, "exc": f"{type(e).__name__}: {e}"[:400],
                        "trace": "".join(traceback.format_tb(e.__traceback__)[-4:])[-1500:]}
            finally:
                ex.unstub_all()
    except Exception as e:  # noqa: BLE001
        return {"kind": "worker_error", "exc": f"{type(e).__name__}: {e}", "trace": traceback.format_exc()[-1500:]}
    if isinstance(r, api.Refused):
        out = {"kind": "refused", "tag": r.tag, "claims": {k: bool(v) for k, v in r.claims.items()}}
    else:
        out = {"kind": "ok", "claims": {k: bool(v) for k, v in (r or {}).items()}}
    return out


def main():
    real_stdout = sys.stdout
    sys.stdout = sys.stderr
    for line in sys.stdin:
        line = line.strip()
        if not line:
            continue
        try:
            out = run(json.loads(line))
        except BaseException as e:  # noqa: BLE001
            out = {"kind": "worker_error", "exc": f"{type(e).__name__}: {e}", "trace": traceback.format_exc()[-1500:]}
        real_stdout.write(json.dumps(out, default=str) + "\n")
        real_stdout.flush()


if __name__ == "__main__":
    main()
