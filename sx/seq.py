"""Symbolic byte strings of concrete length, and a BytesIO over them."""
from __future__ import annotations

import io

import z3

from . import core
from .core import SymBool, SymInt, SxUnsupported, concretize, ite, lift, sand, sor, snot


def _is_sym(x):
    return isinstance(x, (SymInt, SymBool))


def as_symbytes(x):
    if isinstance(x, SymBytes):
        return x
    if isinstance(x, (bytes, bytearray, memoryview)):
        return SymBytes(list(bytes(x)))
    return None


def mk_bytes(items):
    """bytes if everything is concrete, SymBytes otherwise."""
    items = list(items)
    if all(isinstance(i, int) and not _is_sym(i) for i in items):
        return bytes(items)
    return SymBytes(items)


class SymBytes:
    """Immutable byte string, concrete length, each item int or SymInt in 0..255."""

    __slots__ = ("items",)

    def __init__(self, items):
        self.items = list(items)

    def __copy__(self):
        return type(self)(self.items)

    def __deepcopy__(self, memo):    # bytes is a value (returned as is); the mutable subclass gets its own item list
        return self if type(self) is SymBytes else type(self)(self.items)

    @property
    def __class__(self):
        return bytes

    def __len__(self):
        return len(self.items)

    def __iter__(self):
        return iter(self.items)

    def __bool__(self):
        return bool(self.items)

    def __getitem__(self, i):
        if isinstance(i, slice):
            start, stop, step = (concretize(v) if v is not None else None for v in (i.start, i.stop, i.step))
            return mk_bytes(self.items[slice(start, stop, step)])
        if _is_sym(i):
            return select(self.items, i)
        return self.items[i]

    def __add__(self, o):
        o = as_symbytes(o)
        if o is None:
            return NotImplemented
        return mk_bytes(self.items + o.items)

    def __radd__(self, o):
        o = as_symbytes(o)
        if o is None:
            return NotImplemented
        return mk_bytes(o.items + self.items)

    def __mul__(self, k):
        return mk_bytes(self.items * concretize(k))

    __rmul__ = __mul__

    def __eq__(self, o):
        o = as_symbytes(o)
        if o is None or len(o) != len(self):
            return False
        return sand(*[a == b for a, b in zip(self.items, o.items)])

    def __ne__(self, o):
        return snot(self.__eq__(o))

    def _lex_lt(self, o, orequal):
        o = as_symbytes(o)
        if o is None:
            return NotImplemented
        a, b = self.items, o.items
        n = min(len(a), len(b))
        res = (len(a) < len(b)) or (orequal and len(a) == len(b))
        for i in reversed(range(n)):
            res = ite_bool(a[i] < b[i], True, ite_bool(a[i] == b[i], res, False))
        return res

    def __lt__(self, o): return self._lex_lt(o, False)
    def __le__(self, o): return self._lex_lt(o, True)
    def __gt__(self, o): return snot(self._lex_lt(o, True))
    def __ge__(self, o): return snot(self._lex_lt(o, False))

    def __hash__(self):
        return hash(self.concretized())

    def concretized(self):
        return bytes(concretize(i) for i in self.items)

    def __bytes__(self):
        return self.concretized()

    def hex(self, *a):
        if a:
            raise SxUnsupported("bytes.hex with a separator on symbolic bytes")
        items = []
        for b in self.items:
            if type(b) is int:
                items.extend(ord(c) for c in f"{b:02x}")
            else:
                for n in (b >> 4, b & 15):
                    items.append(ite(n < 10, n + 48, n + 87) if type(n) is not int else ord("0123456789abcdef"[n]))
        return SymStr.mk(items)

    def __repr__(self):
        return f"<symbytes len={len(self.items)}>"

    def __format__(self, spec):
        return repr(self)

    def startswith(self, prefix):
        if isinstance(prefix, tuple):
            return sor(*[self.startswith(p) for p in prefix])
        p = as_symbytes(prefix)
        if len(p) > len(self):
            return False
        return mk_bytes(self.items[: len(p)]) == prefix

    def endswith(self, suffix):
        p = as_symbytes(suffix)
        if len(p) > len(self):
            return False
        return mk_bytes(self.items[len(self) - len(p):]) == suffix

    def __contains__(self, x):
        if isinstance(x, (int, SymInt)):
            return bool(sor(*[i == x for i in self.items]))
        return bool(self.find(x) >= 0)

    def _find(self, sub, reverse=False):
        if isinstance(sub, (int, SymInt)) and not isinstance(sub, (bytes, SymBytes)):
            subitems = [sub]
        else:
            subitems = as_symbytes(sub).items
        n, m = len(self.items), len(subitems)
        res = -1
        rng = range(0, n - m + 1)
        for k in (rng if reverse else reversed(rng)):
            hit = sand(*[self.items[k + j] == subitems[j] for j in range(m)])
            res = ite(hit, k, res)
        return res

    def find(self, sub, *a):
        if a:
            raise SxUnsupported("bytes.find with bounds")
        return self._find(sub)

    def rfind(self, sub, *a):
        if a:
            raise SxUnsupported("bytes.rfind with bounds")
        return self._find(sub, reverse=True)

    def index(self, sub, *a):
        r = self.find(sub, *a)
        if r < 0:
            raise ValueError("subsection not found")
        return r

    def count(self, sub):
        if isinstance(sub, (int, SymInt)) and not isinstance(sub, (bytes, SymBytes)):
            return sum((ite(i == sub, 1, 0) for i in self.items), 0)
        raise SxUnsupported("bytes.count of a subsequence")

    def _strip(self, chars, left, right):
        ws = (9, 10, 11, 12, 13, 32) if chars is None else tuple(as_symbytes(chars).items)
        items = list(self.items)
        while left and items and bool(sor(*[items[0] == w for w in ws])):
            items.pop(0)
        while right and items and bool(sor(*[items[-1] == w for w in ws])):
            items.pop()
        return mk_bytes(items)

    def strip(self, chars=None): return self._strip(chars, True, True)
    def lstrip(self, chars=None): return self._strip(chars, True, False)
    def rstrip(self, chars=None): return self._strip(chars, False, True)

    def ljust(self, width, fill=b" "):
        width = concretize(width)
        f = as_symbytes(fill).items
        return mk_bytes(self.items + f * max(width - len(self.items), 0))

    def rjust(self, width, fill=b" "):
        width = concretize(width)
        f = as_symbytes(fill).items
        return mk_bytes(f * max(width - len(self.items), 0) + self.items)

    def removeprefix(self, p):
        p = as_symbytes(p)
        if len(p) <= len(self) and bool(self.startswith(p)):
            return mk_bytes(self.items[len(p):])
        return self

    def removesuffix(self, p):
        p = as_symbytes(p)
        if len(p) and len(p) <= len(self) and bool(self.endswith(p)):
            return mk_bytes(self.items[:len(self) - len(p)])
        return self

    def decode(self, encoding="utf-8", errors="strict"):
        enc = encoding.lower().replace("-", "").replace("_", "")
        for k, c in enumerate(self.items):
            if bool(c > 127):
                if enc == "ascii":
                    raise UnicodeDecodeError("ascii", b"?", k, k + 1, "ordinal not in range(128)")
                raise SxUnsupported("decoding of non-ascii symbolic bytes")
        return SymStr.mk(self.items)

    def isascii(self):
        return sand(*[c < 128 for c in self.items])

    def lower(self):
        return mk_bytes([ite(sand(c >= 65, c <= 90), c + 32, c) for c in self.items])

    def upper(self):
        return mk_bytes([ite(sand(c >= 97, c <= 122), c - 32, c) for c in self.items])

    def join(self, parts):
        out = []
        for i, p in enumerate(list(parts)):
            if i:
                out.extend(self.items)
            out.extend(as_symbytes(p).items)
        return mk_bytes(out)

    def translate(self, table, delete=b""):
        items = self.items
        if delete:
            dset = sorted(set(bytes(delete)))
            kept = []
            for c in items:
                if type(c) is int:
                    if c not in dset:
                        kept.append(c)
                elif not bool(sor(*[c == d for d in dset])):     # one fork per symbolic byte: deleted or kept
                    kept.append(c)
            items = kept
        if table is None:
            return mk_bytes(items)
        return mk_bytes([select(list(table), c) if isinstance(c, SymInt) else table[c] for c in items])


def ite_bool(c, a, b):
    return ite(c, a if isinstance(a, SymBool) else bool(a), b if isinstance(b, SymBool) else bool(b)) if isinstance(c, SymBool) else (a if c else b)


def select(items, idx):
    """items[idx] with symbolic idx: ITE chain; out of range forks into IndexError."""
    n = len(items)
    if isinstance(idx, SymBool):
        idx = idx.as_int()
    if bool(sor(idx >= n, idx < -n)):
        raise IndexError("index out of range")
    if idx.lo < 0:
        idx = ite(idx < 0, idx + n, idx)
        idx = lift(idx)
    if idx.prov is not None and all(type(v) is int for v in items):
        # idx is itself inner[j] for a concrete table: items[inner[j]] is one look-up indexed by j (the identity when the tables undo each other)
        inner, j, jlo, jhi = idx.prov
        if all(0 <= inner[k] < n for k in range(jlo, jhi + 1)):
            composed = [items[inner[k]] if jlo <= k <= jhi else 0 for k in range(len(inner))]
            if composed[jlo:jhi + 1] == list(range(jlo, jhi + 1)):
                return j
            return select(composed, j)
    lo, hi = max(idx.lo, 0), min(idx.hi, n - 1)
    lin = _linear_table(items)
    if lin is not None and lo == 0:
        res = 0
        for k, tk in enumerate(lin):
            if (1 << k) <= hi:
                res = res ^ ite((idx >> k) & 1 == 1, tk, 0)
        return res
    res = items[hi]
    for k in range(hi - 1, lo - 1, -1):
        res = ite(idx == k, items[k], res)
    if type(res) is SymInt and all(type(v) is int for v in items):
        res.prov = (tuple(items), idx, lo, hi)
    return res


_LIN = {}


def _linear_table(items):
    """GF(2)-linear concrete int table of power-of-two size: T[i^j] == T[i]^T[j]."""
    n = len(items)
    if n < 4 or n & (n - 1) or not all(type(v) is int and v >= 0 for v in items):
        return None
    key = tuple(items)
    if key not in _LIN:
        basis = [items[1 << k] for k in range(n.bit_length() - 1)]
        ok = items[0] == 0
        for i in range(n):
            v = 0
            for k, b in enumerate(basis):
                if i >> k & 1:
                    v ^= b
            ok = ok and v == items[i]
        _LIN[key] = basis if ok else None
    return _LIN[key]


def int_from_bytes(data, byteorder="big", *, signed=False):
    b = as_symbytes(data)
    if b is None:
        b = SymBytes(list(data))
    items = b.items if byteorder == "big" else list(reversed(b.items))
    n = len(items)
    if n == 0:
        return 0
    if signed:
        u = int_from_bytes(SymBytes(items), "big")
        return ite(u >= (1 << (8 * n - 1)), u - (1 << (8 * n)), u)
    # concat as bit-vector
    parts = []
    for it in items:
        l = lift(it)
        # a byte is 0..255 by construction (bytes() refuses anything else); its interval book-keeping may be wider (x & 0xff | 0x80 ...)
        parts.append(z3.Extract(7, 0, l.ext(max(9, core._bits_for(l.lo, l.hi)))))
    e = z3.Concat(*parts) if n > 1 else parts[0]
    e = z3.ZeroExt(1, e)
    lo = sum(max(lift(it).lo, 0) << (8 * (n - 1 - k)) for k, it in enumerate(items))
    hi = sum(min(lift(it).hi, 255) << (8 * (n - 1 - k)) for k, it in enumerate(items))
    return SymInt.mk(z3.simplify(e), lo, hi)


class SymBytesIO(io.BytesIO):
    """BytesIO over (possibly) symbolic content; position is concrete."""

    def __init__(self, initial=b""):
        super().__init__()
        b = as_symbytes(initial)
        self._items = list(b.items) if b is not None else []
        self._pos = 0

    def read(self, size=-1):
        if size is None:
            size = -1
        remaining = len(self._items) - self._pos
        if _is_sym(size):
            s = lift(size)
            if bool(sor(s < 0, s >= remaining)):
                size = remaining
            else:
                size = concretize(s)
        if size < 0 or size > remaining:
            size = max(remaining, 0)
        out = self._items[self._pos:self._pos + size]
        self._pos += size
        return mk_bytes(out)

    def tell(self):
        return self._pos

    def seek(self, pos, whence=0):
        pos = concretize(pos)
        if whence == 0:
            self._pos = pos
        elif whence == 1:
            self._pos += pos
        else:
            self._pos = len(self._items) + pos
        return self._pos

    def getvalue(self):
        return mk_bytes(self._items)

    def getbuffer(self):
        return mk_bytes(self._items)

    def write(self, b):
        b = as_symbytes(b)
        self._items[self._pos:self._pos + len(b)] = b.items
        self._pos += len(b)
        return len(b)

    def __len__(self):
        raise TypeError


class SymByteArray(SymBytes):
    """Mutable twin of SymBytes (concrete length)."""

    __slots__ = ()

    @property
    def __class__(self):
        return bytearray

    def __setitem__(self, i, v):
        if isinstance(i, slice):
            start, stop, step = (concretize(x) if x is not None else None for x in (i.start, i.stop, i.step))
            vb = as_symbytes(v)
            if vb is None:
                raise TypeError("can assign only bytes, buffers, or iterables of ints in range(0, 256)")
            self.items[slice(start, stop, step)] = vb.items
            return
        if _is_sym(i):
            i = concretize(i)
        if bool(sor(v < 0, v > 255)):
            raise ValueError("byte must be in range(0, 256)")
        self.items[i] = v

    def __getitem__(self, i):
        r = SymBytes.__getitem__(self, i)
        if isinstance(i, slice):
            return SymByteArray(as_symbytes(r).items)
        return r

    def extend(self, o):
        self.items.extend(as_symbytes(o).items if as_symbytes(o) is not None else list(o))

    def append(self, v):
        self.items.append(v)

    def __iadd__(self, o):
        self.extend(o)
        return self

    def __hash__(self):
        raise TypeError("unhashable type: 'bytearray'")

    def copy(self):
        return SymByteArray(self.items)

    def reverse(self):
        self.items.reverse()

    def clear(self):
        self.items.clear()

    def pop(self, i=-1):
        return self.items.pop(concretize(i))

    def insert(self, i, v):
        self.items.insert(concretize(i), v)

    def __delitem__(self, i):
        if isinstance(i, slice):
            del self.items[slice(*(concretize(x) if x is not None else None for x in (i.start, i.stop, i.step)))]
        else:
            del self.items[concretize(i)]

    def __eq__(self, o):
        return SymBytes.__eq__(self, o)

    def __ne__(self, o):
        return snot(SymBytes.__eq__(self, o))


def _bytes_of(x):
    """SymBytes view of bytes/bytearray/SymBytes (immutable copy)."""
    b = as_symbytes(x)
    return None if b is None else mk_bytes(b.items)


class SymStr:
    """Text of concrete length; each item is a code point (int or SymInt)."""

    __slots__ = ("items",)

    def __init__(self, items):
        self.items = list(items)

    def __copy__(self):
        return self

    def __deepcopy__(self, memo):
        return self

    @property
    def __class__(self):
        return str

    @staticmethod
    def of(x):
        if isinstance(x, SymStr):
            return x
        if type(x) is str:
            return SymStr([ord(c) for c in x])
        return None

    @staticmethod
    def mk(items):
        items = list(items)
        if all(type(i) is int for i in items):
            return "".join(chr(i) for i in items)
        return SymStr(items)

    def __len__(self):
        return len(self.items)

    def __bool__(self):
        return bool(self.items)

    def __iter__(self):
        return (SymStr.mk([c]) for c in self.items)

    def __getitem__(self, i):
        if isinstance(i, slice):
            start, stop, step = (concretize(v) if v is not None else None for v in (i.start, i.stop, i.step))
            return SymStr.mk(self.items[slice(start, stop, step)])
        if _is_sym(i):
            return SymStr.mk([select(self.items, i)])
        return SymStr.mk([self.items[i]])

    def __add__(self, o):
        o = SymStr.of(o)
        if o is None:
            return NotImplemented
        return SymStr.mk(self.items + o.items)

    def __radd__(self, o):
        o = SymStr.of(o)
        if o is None:
            return NotImplemented
        return SymStr.mk(o.items + self.items)

    def __mul__(self, k):
        return SymStr.mk(self.items * concretize(k))

    __rmul__ = __mul__

    def __eq__(self, o):
        o = SymStr.of(o)
        if o is None or len(o) != len(self):
            return False
        return sand(*[a == b for a, b in zip(self.items, o.items)])

    def __ne__(self, o):
        return snot(self.__eq__(o))

    def _lex_lt(self, o, orequal):
        o = SymStr.of(o)
        if o is None:
            return NotImplemented
        return SymBytes._lex_lt(_Items(self.items), _Items(o.items), orequal)

    def __lt__(self, o): return self._lex_lt(o, False)
    def __le__(self, o): return self._lex_lt(o, True)
    def __gt__(self, o): return snot(self._lex_lt(o, True))
    def __ge__(self, o): return snot(self._lex_lt(o, False))

    def __hash__(self):
        return hash(self.concretized())

    def concretized(self):
        return "".join(chr(concretize(i)) for i in self.items)

    def __str__(self):
        return "<symstr>"

    def __repr__(self):
        return f"<symstr len={len(self.items)}>"

    def __format__(self, spec):
        return "<symstr>"

    def __contains__(self, x):
        x = SymStr.of(x)
        if x is None:
            raise TypeError("'in <string>' requires string as left operand")
        return bool(self.find_sym(x) >= 0)

    # --- methods
    def _map(self, f):
        return SymStr.mk([f(c) for c in self.items])

    def lower(self):
        def f(c):
            if type(c) is int:
                return ord(chr(c).lower()) if len(chr(c).lower()) == 1 else _unsupported("case mapping that changes length")
            if c.dom is not None and not any(65 <= v <= 90 or v > 127 for v in c.dom):
                return c            # no value this term can take is an upper-case letter: unchanged (keeps its table provenance)
            return _ascii_only(c, ite(sand(c >= 65, c <= 90), c + 32, c))
        return self._map(f)

    def upper(self):
        def f(c):
            if type(c) is int:
                return ord(chr(c).upper()) if len(chr(c).upper()) == 1 else _unsupported("case mapping that changes length")
            if c.dom is not None and not any(97 <= v <= 122 or v > 127 for v in c.dom):
                return c
            return _ascii_only(c, ite(sand(c >= 97, c <= 122), c - 32, c))
        return self._map(f)

    def find_sym(self, sub, reverse=False):
        """Index of first (last) occurrence as SymInt, -1 if none."""
        n, m = len(self.items), len(sub.items)
        res = -1
        rng = range(0, n - m + 1)
        order = rng if reverse else reversed(rng)   # build ITE from the far end
        for k in order:
            hit = sand(*[self.items[k + j] == sub.items[j] for j in range(m)])
            res = ite(hit, k, res)
        return res

    def find(self, sub, *a):
        if a:
            raise SxUnsupported("str.find with bounds")
        return self.find_sym(SymStr.of(sub))

    def rfind(self, sub, *a):
        if a:
            raise SxUnsupported("str.rfind with bounds")
        return self.find_sym(SymStr.of(sub), reverse=True)

    def startswith(self, p):
        if isinstance(p, tuple):
            return sor(*[self.startswith(q) for q in p])
        p = SymStr.of(p)
        if len(p) > len(self):
            return False
        return SymStr.mk(self.items[:len(p)]) == p

    def endswith(self, p):
        if isinstance(p, tuple):
            return sor(*[self.endswith(q) for q in p])
        p = SymStr.of(p)
        if len(p) > len(self):
            return False
        return SymStr.mk(self.items[len(self) - len(p):]) == p

    def encode(self, encoding="utf-8", errors="strict"):
        enc = encoding.lower().replace("-", "")
        for c in self.items:
            if bool(c > 127):
                if enc == "ascii":
                    raise UnicodeEncodeError("ascii", "?", 0, 1, "ordinal not in range(128)")
                raise SxUnsupported("non-ascii symbolic str.encode")
        return mk_bytes(self.items)

    def isascii(self):
        return sand(*[c < 128 for c in self.items])

    def partition(self, sep):
        i = concretize(self.find_sym(SymStr.of(sep)))      # one case per possible position of the separator
        if i < 0:
            return self, "", ""
        return SymStr.mk(self.items[:i]), sep, SymStr.mk(self.items[i + len(sep):])

    def rpartition(self, sep):
        i = concretize(self.find_sym(SymStr.of(sep), reverse=True))
        if i < 0:
            return "", "", self
        return SymStr.mk(self.items[:i]), sep, SymStr.mk(self.items[i + len(sep):])

    def split(self, sep=None, maxsplit=-1):
        if sep is None:
            raise SxUnsupported("str.split() on whitespace for symbolic text")
        out, rest, n = [], self, 0
        while maxsplit < 0 or n < maxsplit:
            if type(rest) is str:
                parts = rest.split(sep, 1)
                if len(parts) == 1:
                    break
                head, _, tail = parts[0], sep, parts[1]
            else:
                head, s_, tail = rest.partition(sep)
                if s_ == "":
                    break
            out.append(head)
            rest = tail
            n += 1
        out.append(rest)
        return out

    def strip(self, chars=None):
        # whitespace stripping: fork on each end
        items = list(self.items)
        ws = (9, 10, 11, 12, 13, 28, 29, 30, 31, 32, 133, 160) if chars is None else tuple(ord(c) for c in chars)
        while items and bool(sor(*[items[0] == w for w in ws])):
            items.pop(0)
        while items and bool(sor(*[items[-1] == w for w in ws])):
            items.pop()
        return SymStr.mk(items)

    def join(self, parts):
        out = []
        for i, p in enumerate(parts):
            if i:
                out.extend(self.items)
            out.extend(SymStr.of(p).items)
        return SymStr.mk(out)


def _unsupported(msg):
    raise SxUnsupported(msg)


def _ascii_only(c, r):
    if bool(c > 127):
        raise SxUnsupported("case mapping of non-ascii symbolic character")
    return r


class _Items:
    """Adapter so SymBytes._lex_lt can run over arbitrary item lists."""
    def __init__(self, items):
        self.items = items

    @property
    def __class__(self):
        return SymBytes


def str_join(sep, parts):
    parts = list(parts)
    if any(isinstance(p, SymStr) for p in parts) or isinstance(sep, SymStr):
        return SymStr.of(sep).join(parts)
    return sep.join(parts)


class LazyBinStr:
    """f"{x:b}" for a symbolic non-negative x: a digit string whose *length* is symbolic (x.bit_length()).  Only what BIP39-style
    code does with it is modelled: len(), zfill(n) for n at least the greatest possible length (a SymStr of n digits) and a
    case split on the value for anything else (indexing, iteration, concatenation)."""

    def __init__(self, x):
        self.x = x

    @property
    def __class__(self):
        return str

    def sym_len(self):
        bl = self.x.bit_length()
        return ite(self.x == 0, 1, bl)

    def zfill(self, n):
        n = concretize(n)
        x = lift(self.x)
        if x.lo < 0 or x.hi >= (1 << n):
            return _unsupported("zfill narrower than the binary rendering may be")
        return SymStr.mk([48 + ((x >> (n - 1 - i)) & 1) for i in range(n)])

    # every other use is a case split on the value (what f"{x:b}" did before this class existed: digit strings consumed by code, as in the Montgomery ladder)
    def _concrete(self):
        return format(concretize(self.x), "b")

    def __getitem__(self, i):
        return self._concrete()[i]

    def __iter__(self):
        return iter(self._concrete())

    def __len__(self):
        return len(self._concrete())

    def __add__(self, o):
        return self._concrete() + o

    def __radd__(self, o):
        return o + self._concrete()

    def __eq__(self, o):
        return self._concrete() == o

    def __hash__(self):
        return hash(self._concrete())

    def __getattr__(self, name):
        if name.startswith("__"):
            raise AttributeError(name)
        return getattr(self._concrete(), name)

    def __str__(self):
        return self._concrete()

    def __format__(self, spec):
        return format(self._concrete(), spec)
