"""Harness API: obligations, and the two execution contexts a harness runs under.

A harness is a function ``h(ex, **params)`` written once and executed in two
modes:

* symbolic: ``ex`` is a ``core.Explorer``; btclib is the instrumented import;
  inputs are solver variables; the returned claims are ``SymBool`` terms.
* concrete: ``ex`` is a ``ConcreteEx``; btclib is the plain import from /repo;
  inputs come from a solver model (cross-validation) or a replay file; the
  claims are Python bools.
"""
from __future__ import annotations

import hashlib
import sys

from . import core
from .core import SymBool, SymInt, sand, sor, snot, ite, concretize  # re-exported

MODE = "sym"  # set to "conc" by the concrete worker before harness import

REGISTRY: dict = {}


class Refused:
    """Outcome: the library refused the input with an allowed exception."""

    def __init__(self, tag, claims=None):
        self.tag = tag
        self.claims = claims or {}


class Ob:
    def __init__(self, prop, name, fn, quick, thorough, **kw):
        self.prop, self.name, self.fn = prop, name, fn
        self.quick = quick
        self.thorough = thorough if thorough is not None else quick
        self.bound = kw.pop("bound", "")
        self.stubs = list(kw.pop("stubs", ()))
        self.outside = list(kw.pop("outside", ()))
        self.min_ok = kw.pop("min_ok", 1)          # vacuity: paths that must reach a claim
        self.timeout = kw.pop("timeout", 600)      # wall seconds per instance
        self.max_paths = kw.pop("max_paths", 200000)
        self.max_decisions = kw.pop("max_decisions", 4000)
        self.query_timeout_ms = kw.pop("query_timeout_ms", 60000)
        self.weight = kw.pop("weight", 1.0)        # scheduling hint (bigger first)
        self.functions = list(kw.pop("functions", ()))  # library functions that must be seen executing
        self.validate = kw.pop("validate", True)   # per-path concrete cross-validation
        self.module = kw.pop("module", None) or fn.__module__
        assert not kw, kw

    def instances(self, tier):
        return list(self.thorough if tier == "thorough" else self.quick)


def ob(prop, name, quick, thorough=None, **kw):
    def deco(fn):
        o = Ob(prop, name, fn, quick, thorough, **kw)
        assert (prop, name) not in REGISTRY, (prop, name)
        REGISTRY[(prop, name)] = o
        return fn
    return deco


def implies(a, b):
    return sor(snot(a), b)


def iff(a, b):
    return sand(implies(a, b), implies(b, a))


class AssumeFailed(Exception):
    pass


# --------------------------------------------------------------- concrete ex
class ConcreteEx:
    """Concrete twin of core.Explorer, for cross-validation and replay."""

    concrete = True

    def __init__(self, inputs, uf_tables):
        self.inputs = dict(inputs)
        self.uf_tables = uf_tables or {}
        self.fresh = {}
        self._patches = []
        self._attr_patches = []
        self.path_state = {}

    # inputs
    def var(self, name, lo, hi):
        v = self.inputs.get(name, lo)
        if not lo <= v <= hi:
            raise AssumeFailed(f"{name}={v} outside [{lo},{hi}]")
        return v

    int = var

    def fresh_var(self, base, lo, hi):
        k = self.fresh.get(base, 0) + 1
        self.fresh[base] = k
        return self.var(f"{base}!{k}", lo, hi)

    def bool(self, name):
        return bool(self.var(name, 0, 1))

    def bytes(self, name, n):
        return bytes(self.var(f"{name}{i:03d}", 0, 255) for i in range(n))

    def bytearray(self, name, n):
        return bytearray(self.bytes(name, n))

    def str(self, name, n, lo=0, hi=127):
        return "".join(chr(self.var(f"{name}{i:03d}", lo, hi)) for i in range(n))

    def assume(self, c):
        if not c:
            raise AssumeFailed("assumption false under the given inputs")

    def concretize(self, x, cap=300):
        return x

    def refuse(self, tag, **claims):
        return Refused(tag, claims)

    def abstract_wide_arith(self, bits, div_bits="same"):
        pass

    def inputs_value(self, name, default=0):
        return self.inputs.get(name, default)

    def concrete_randomness(self):
        pass

    def no_div_witness(self):
        pass

    def merge_conditionals(self, on=True):
        pass

    def prefer_int(self, on=True):
        pass

    def unstubbed(self, fn, *args, **kw):
        return fn(*args, **kw)

    # stubs
    def stub(self, target, repl, owner=None, attr=None):
        """Replace `target` wherever btclib modules (and `owner`) hold a reference."""
        if owner is not None:
            had = attr in getattr(owner, "__dict__", {})
            self._attr_patches.append((owner, attr, had, owner.__dict__.get(attr) if had else None))
            (type.__setattr__ if isinstance(owner, type) else object.__setattr__)(owner, attr, repl)
            return repl
        for mname, mod in list(sys.modules.items()):
            if mod is None or not (mname == "btclib" or mname.startswith("btclib.")):
                continue
            d = mod.__dict__
            for k, v in list(d.items()):
                if v is target:
                    self._patches.append((d, k, v))
                    d[k] = repl
        return repl

    def unstub_all(self):
        for owner, attr, had, old in reversed(self._attr_patches):
            is_cls = isinstance(owner, type)
            if had:
                (type.__setattr__ if is_cls else object.__setattr__)(owner, attr, old)
            else:
                try:
                    (type.__delattr__ if is_cls else object.__delattr__)(owner, attr)
                except AttributeError:
                    pass
        self._attr_patches = []
        for d, k, v in reversed(self._patches):
            try:
                d[k] = v
            except TypeError:  # mappingproxy (class dict): owner was a class
                pass
        self._patches = []

    def uf(self, name, outlen, injective=False):
        table = {bytes.fromhex(a): bytes.fromhex(o) for a, o in self.uf_tables.get(name, [])}

        def f(data, *rest):
            data = bytes(data)
            for r in rest:
                data += b"|" + bytes(r)
            if data in table:
                return table[data]
            out = b""
            c = 0
            while len(out) < outlen:
                out += hashlib.sha256(name.encode() + bytes([c]) + data).digest()
                c += 1
            return out[:outlen]
        f.uf_name = name
        return f


# --------------------------------------------------------------- symbolic ex mixin
def _install_explorer_api():
    from .seq import SymBytes, SymStr, SymByteArray
    from . import instr
    from .uf import UF
    E = core.Explorer
    E.concrete = False
    E.int = E.var

    def bool_(self, name):
        return self.var(name, 0, 1) == 1

    def bytes_(self, name, n):
        return SymBytes([self.var(f"{name}{i:03d}", 0, 255) for i in range(n)])

    def bytearray_(self, name, n):
        return SymByteArray([self.var(f"{name}{i:03d}", 0, 255) for i in range(n)])

    def str_(self, name, n, lo=0, hi=127):
        return SymStr([self.var(f"{name}{i:03d}", lo, hi) for i in range(n)])

    def assume(self, c):
        if isinstance(c, SymBool):
            self.assume_z3(c.e)
            if self.check() != core.z3.sat:
                raise core.SxAbort("assumption infeasible")
        elif not c:
            raise core.SxAbort("assumption false")

    def concretize_(self, x, cap=300):
        return concretize(x, cap)

    def refuse(self, tag, **claims):
        return Refused(tag, claims)

    def stub(self, target, repl, owner=None, attr=None):
        """Symbolic mode: calls of `target` made by instrumented code are answered by `repl` (bound methods match by equality)."""
        instr.STUBS[target] = repl
        return repl

    def uf(self, name, outlen, injective=False):
        return UF(name, outlen, injective)

    def abstract_wide_arith(self, bits, div_bits="same"):
        core.ABSTRACT_BITS = bits
        core.ABSTRACT_DIV_BITS = bits if div_bits == "same" else div_bits

    def prefer_int(self, on=True):
        core.INT_FIRST = on

    def unstubbed(self, fn, *args, **kw):
        """Call the library's own `fn` from inside its stub."""
        st = instr.STUBS.pop(fn, None)
        try:
            return instr.call(fn, *args, **kw)
        finally:
            if st is not None:
                instr.STUBS[fn] = st

    def inputs_value(self, name, default=0):
        v = self.inputs.get(name)
        if v is None:
            return default
        return SymInt(v, -(1 << (v.size() - 1)), (1 << (v.size() - 1)) - 1)

    def concrete_randomness(self):
        """Blinding factors / aux data come from the real CSPRNG (for obligations whose point arithmetic runs concretely)."""
        instr.RANDOM_SYMBOLIC = False

    def no_div_witness(self):
        """Keep x // c and x % c as plain division terms (no witness constraints in the path condition): for obligations
        that compute but never examine a wide quotient."""
        core.DIV_WITNESS = False

    def merge_conditionals(self, on=True):
        instr.MERGE_CONDITIONALS = on

    E.merge_conditionals = merge_conditionals
    E.no_div_witness = no_div_witness
    E.concrete_randomness = concrete_randomness
    E.inputs_value = inputs_value
    E.unstubbed = unstubbed

    E.prefer_int = prefer_int
    E.abstract_wide_arith = abstract_wide_arith
    E.bool, E.bytes, E.bytearray, E.str = bool_, bytes_, bytearray_, str_
    E.assume, E.concretize, E.refuse, E.stub, E.uf = assume, concretize_, refuse, stub, uf
