"""Uninterpreted hash functions over SymBytes.

A digest is a fresh symbolic byte string. Functional consistency is kept in two
steps: (1) an application whose argument is *term-identical* (z3 hash-consed
``eq``) to an earlier one returns the very same symbols and emits no
constraint; (2) for the remaining pairs of equal length an Ackermann constraint
``args_i == args_j  =>  out_i == out_j`` is asserted -- and, for a UF declared
injective (collision resistance), the converse as well; arguments of different
length then have different digests.

With all-concrete arguments and a ``real`` function given, the real function
runs (its results still take part in the injectivity constraints).
"""
import z3

from . import core
from .core import SymBool, SymInt
from .seq import SymBytes, as_symbytes, mk_bytes


def _same(x, y):
    if x is y:
        return True
    tx, ty = type(x), type(y)
    if tx is int and ty is int:
        return x == y
    if tx is SymInt and ty is SymInt:
        return x._e is not None and y._e is not None and x._e.eq(y._e)
    return False


class UF:
    def __init__(self, name, outlen, injective=False, real=None):
        self.name, self.outlen, self.injective, self.real = name, outlen, injective, real
        self.uf_name = name
        self.calls = []
        self.path = None

    def __call__(self, data, *rest):
        ex = core.CUR
        if self.path is not ex.solver:  # new path: forget
            self.path = ex.solver
            self.calls = []
        a = as_symbytes(data)
        if a is None:
            raise core.SxUnsupported(f"UF {self.name}: argument is not bytes-like: {type(data).__name__}")
        items = list(a.items)
        for r in rest:   # multi-argument functions: unambiguous framing is the harness' job
            items.append(ord("|"))
            items.extend(as_symbytes(r).items)
        a = SymBytes(items)
        for (b, out) in self.calls:  # term-identical argument: same symbols
            if len(b) == len(a) and all(_same(x, y) for x, y in zip(a.items, b.items)):
                return out
        concrete = all(type(i) is int for i in a.items)
        if concrete and self.real is not None:
            out = as_symbytes(self.real(bytes(a.items)))
        else:
            concrete = False
            out = SymBytes([ex.fresh_var(f"{self.name}_o", 0, 255) for _ in range(self.outlen)])
        for (b, o2) in self.calls:
            if concrete and all(type(i) is int for i in b.items) and all(type(i) is int for i in o2.items):
                continue    # two applications of the real function to concrete data: nothing to state
            if len(b) == len(a):
                eq = _e(SymBytes.__eq__(a, b))
                oeq = _e(SymBytes.__eq__(out, o2))
                ex.assume_z3(z3.Implies(eq, oeq))
                if self.injective:
                    ex.assume_z3(z3.Implies(oeq, eq))
            elif self.injective:
                ex.assume_z3(z3.Not(_e(SymBytes.__eq__(out, o2))))
        self.calls.append((a, out))
        ex.uf_calls.append((self.name, a, out))
        return mk_bytes(out.items)


def _e(b):
    if isinstance(b, SymBool):
        return b.e
    return z3.BoolVal(bool(b))
