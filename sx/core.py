"""sx prototype: dynamic symbolic execution of instrumented Python via proxies + z3.

Exact integer semantics through dynamically-widened signed bit-vectors with
python-side interval tracking (no wraparound ever happens: every operation
first sign-extends to a width that holds the exact result).
"""
from __future__ import annotations

import io
import time
import z3


class SxAbort(BaseException):
    """Path aborted (infeasible / budget)."""


class SxUnsupported(BaseException):
    """Operation not modelled: path (and obligation) is inconclusive."""


def _bits_for(lo: int, hi: int) -> int:
    """Signed width holding [lo, hi]."""
    w = 1
    if hi >= 0:
        w = max(w, hi.bit_length() + 1)
    if lo < 0:
        w = max(w, (-lo - 1).bit_length() + 1)
    return w


class Explorer:
    def __init__(self, max_decisions=4000, max_paths=200000, timeout_ms=60000):
        self.max_decisions = max_decisions
        self.max_paths = max_paths
        self.solver_time = 0.0
        self.queries = 0
        self.timeout_ms = timeout_ms
        self.fresh = {}
        self.active = False
        self.cur = None
        self.total_decisions = 0

    # -- per path state
    def begin(self, prefix):
        self.prefix = prefix
        self.pos = 0
        self.decisions = []
        self.pc = []
        self.solver = z3.Solver()
        self.solver.set("timeout", self.timeout_ms)
        self.fresh = {}
        self.inputs = {}
        self.pending = []
        self.active = True
        self.uf_calls = []      # (name, arg SymBytes, out SymBytes) for table extraction
        self.path_state = {}    # per-path scratch for stubs

    def var(self, name, lo, hi):
        w = _bits_for(lo, hi)
        v = z3.BitVec(name, w)
        self.inputs[name] = v
        s = SymInt(v, lo, hi)
        self.assume_z3(z3.And(v >= lo, v <= hi))
        return s

    def fresh_var(self, base, lo, hi):
        k = self.fresh.get(base, 0) + 1
        self.fresh[base] = k
        return self.var(f"{base}!{k}", lo, hi)

    def assume_z3(self, c):
        self.pc.append(c)
        self.solver.add(c)

    def check(self, *extra):
        t = time.time()
        self.queries += 1
        if INT_FIRST:
            r = self._check_as_int(extra)
            if r == z3.unknown:
                r = self.solver.check(*extra)
        elif INT_FALLBACK:
            r = self.solver.check(*extra)
            if r == z3.unknown:
                r = self._check_as_int(extra)
        else:
            r = self.solver.check(*extra)
        dt = time.time() - t
        self.solver_time += dt
        if TRACE_SLOW and dt > TRACE_SLOW:
            import traceback
            fr = [f for f in traceback.extract_stack() if "/sx/" not in f.filename][-3:]
            print(f"[slow query {dt:.1f}s -> {r}] " + " <- ".join(f"{f.filename.split('/')[-1]}:{f.lineno}" for f in reversed(fr)), flush=True)
        return r

    def _check_as_int(self, extra):
        """Second opinion over mathematical integers (see bv2int). Only `unsat`, or a model the BV solver confirms."""
        from . import bv2int
        self.int_queries = getattr(self, "int_queries", 0) + 1
        verdict, vals = bv2int.check_as_int(list(self.solver.assertions()) + list(extra), timeout_ms=min(self.timeout_ms, 60000))
        if verdict == "unsat":
            self.int_unsat = getattr(self, "int_unsat", 0) + 1
            return z3.unsat
        if verdict == "sat":
            pins = []
            for name, (v, w) in vals.items():
                if name in self.inputs:
                    pins.append(self.inputs[name] == z3.BitVecVal(v, w))
            r2 = self.solver.check(*extra, *pins)
            if r2 == z3.sat:
                return z3.sat
        return z3.unknown

    def branch(self, cond) -> bool:
        """Decide a symbolic condition; fork if both feasible."""
        cond = z3.simplify(cond)
        if z3.is_true(cond):
            return True
        if z3.is_false(cond):
            return False
        if self.pos < len(self.prefix):
            d = self.prefix[self.pos]
            self.pos += 1
            self.decisions.append(d)
            self.assume_z3(cond if d else z3.Not(cond))
            return d
        if len(self.decisions) >= self.max_decisions:
            raise SxUnsupported("decision budget exceeded (unwinding bound)")
        rt = self.check(cond)
        rf = self.check(z3.Not(cond))
        if rt == z3.unknown or rf == z3.unknown:
            raise SxUnsupported("solver unknown at branch")
        if rt == z3.sat and rf == z3.sat:
            self.pending.append(self.decisions + [False])
            d = True
            if PROFILE_FORKS:
                _note_site("fork")
        elif rt == z3.sat:
            d = True
        elif rf == z3.sat:
            d = False
        else:
            raise SxAbort("infeasible path")
        self.decisions.append(d)
        self.pos += 1
        self.assume_z3(cond if d else z3.Not(cond))
        return d

    def pick_value(self, x):
        """A feasible value for SymInt x on this path (recorded for replay)."""
        if self.pos < len(self.prefix):
            rec = self.prefix[self.pos]
            assert isinstance(rec, tuple) and rec[0] == "v", rec
            self.pos += 1
            self.decisions.append(rec)
            return rec[1]
        r = self.check()
        if r != z3.sat:
            raise SxAbort("infeasible") if r == z3.unsat else SxUnsupported("unknown")
        if PROFILE_FORKS:
            _note_site("pick")
        m = self.solver.model()
        v = m.eval(x.ext(x.w), model_completion=True).as_signed_long()
        self.decisions.append(("v", v))
        self.pos += 1
        return v

    def explore(self, fn, on_path):
        """Run fn(self) on every feasible path (DFS by decision replay)."""
        work = [[]]
        npaths = 0
        stats = dict(paths=0, aborted=0, unsupported=0, budget=None)
        global CUR
        while work:
            prefix = work.pop()
            self.begin(prefix)
            CUR = self
            try:
                res = fn(self)
                outcome = ("ok", res)
            except SxAbort:
                stats["aborted"] += 1
                outcome = None
            except SxUnsupported as e:
                stats["unsupported"] += 1
                outcome = ("unsupported", e)
            except RecursionError as e:
                outcome = ("exc", e)
            except Exception as e:  # noqa: BLE001 - the library's own exceptions are outcomes
                outcome = ("exc", e)
            self.active = False
            work.extend(self.pending)
            self.total_decisions += len(self.decisions)
            if outcome is not None:
                stats["paths"] += 1
                on_path(self, outcome)
            npaths += 1
            if npaths >= self.max_paths and work:
                stats["budget"] = f"path budget {self.max_paths} exhausted with {len(work)} prefixes pending"
                break
        return stats

    def prove(self, claim) -> tuple[str, object]:
        """Under current pc, is claim valid? returns ('valid'|'cex'|'unknown', model)."""
        if type(claim) is bool:
            if claim:
                return "valid", None
            r = self.check()
            return ("cex", self.solver.model()) if r == z3.sat else ("valid", None)
        if isinstance(claim, SymBool):
            claim = claim.e
        r = self.check(z3.Not(claim))
        if r == z3.unsat:
            return "valid", None
        if r == z3.sat:
            return "cex", self.solver.model()
        return "unknown", None


CUR: Explorer = None  # type: ignore
import os as _os
TRACE_SLOW = float(_os.environ.get("SX_TRACE_SLOW", "0") or 0)
INT_FALLBACK = True
INT_FIRST = False      # harness opt-in: ask the integer restatement first (arithmetic-heavy obligations)
FAST_MS = 6000


def lift(x):
    if isinstance(x, SymInt):
        return x
    if isinstance(x, SymBool):
        return x.as_int()
    if isinstance(x, bool):
        x = int(x)
    if isinstance(x, int):
        return SymInt(None, x, x)
    return None


PROFILE_FORKS = bool(__import__("os").environ.get("SX_PROFILE_FORKS"))
FORK_SITES = {}


def _note_site(kind):
    """Debug aid (SX_PROFILE_FORKS=1): count forks per source line of the code under analysis."""
    import sys
    f = sys._getframe(2)
    while f is not None and "/verif/sx/" in f.f_code.co_filename:
        f = f.f_back
    key = f"{kind} {f.f_code.co_filename}:{f.f_lineno} {f.f_code.co_name}" if f else kind
    FORK_SITES[key] = FORK_SITES.get(key, 0) + 1
    if sum(FORK_SITES.values()) % 500 == 0:
        top = sorted(FORK_SITES.items(), key=lambda kv: -kv[1])[:8]
        print("FORK-SITES", top, file=sys.stderr, flush=True)


class SymBool:
    __slots__ = ("e",)

    def __init__(self, e):
        self.e = e

    def __copy__(self):
        return self

    def __deepcopy__(self, memo):    # a value, as bool is
        return self

    def __bool__(self):
        return CUR.branch(self.e)

    def as_int(self):
        return SymInt(z3.If(self.e, z3.BitVecVal(1, 2), z3.BitVecVal(0, 2)), 0, 1)

    def __index__(self):
        return int(bool(self))

    def __eq__(self, o):
        if isinstance(o, SymBool):
            return SymBool(self.e == o.e)
        if isinstance(o, bool):
            return SymBool(self.e if o else z3.Not(self.e))
        return self.as_int() == o

    def __ne__(self, o):
        r = self.__eq__(o)
        return SymBool(z3.Not(r.e))

    def __hash__(self):
        return hash(bool(self))

    def __and__(self, o):
        if isinstance(o, SymBool):
            return SymBool(z3.And(self.e, o.e))
        if isinstance(o, bool):
            return self if o else False
        return self.as_int() & o

    __rand__ = __and__

    def __or__(self, o):
        if isinstance(o, SymBool):
            return SymBool(z3.Or(self.e, o.e))
        if isinstance(o, bool):
            return True if o else self
        return self.as_int() | o

    __ror__ = __or__

    def __invert__(self):
        return ~self.as_int()

    def __repr__(self):
        return "<symbool>"

    __format__ = lambda self, spec: "<symbool>"

    @property
    def __class__(self):
        return bool


def _fwd(name):
    def f(self, *a):
        return getattr(self.as_int(), name)(*a)
    f.__name__ = name
    return f


for _n in ["__add__", "__radd__", "__sub__", "__rsub__", "__mul__", "__rmul__", "__lshift__", "__rlshift__",
           "__rshift__", "__xor__", "__rxor__", "__lt__", "__le__", "__gt__", "__ge__", "__neg__", "__floordiv__", "__mod__"]:
    setattr(SymBool, _n, _fwd(_n))


def sand(*xs):
    es = []
    for x in xs:
        if isinstance(x, SymBool):
            es.append(x.e)
        elif not x:
            return False
    if not es:
        return True
    return SymBool(z3.And(*es)) if len(es) > 1 else SymBool(es[0])


def sor(*xs):
    es = []
    for x in xs:
        if isinstance(x, SymBool):
            es.append(x.e)
        elif x:
            return True
    if not es:
        return False
    return SymBool(z3.Or(*es)) if len(es) > 1 else SymBool(es[0])


def snot(x):
    if isinstance(x, SymBool):
        return SymBool(z3.Not(x.e))
    return not x


def ite(c, a, b):
    """Symbolic if-then-else over ints / bools / tuples / SymBytes."""
    if not isinstance(c, SymBool):
        return a if c else b
    if isinstance(a, (tuple, list)) and isinstance(b, (tuple, list)) and len(a) == len(b):
        return type(a)(ite(c, x, y) for x, y in zip(a, b))
    if isinstance(a, (bool, SymBool)) and isinstance(b, (bool, SymBool)):
        ea = a.e if isinstance(a, SymBool) else z3.BoolVal(a)
        eb = b.e if isinstance(b, SymBool) else z3.BoolVal(b)
        return SymBool(z3.If(c.e, ea, eb))
    la, lb = lift(a), lift(b)
    if la is not None and lb is not None:
        lo, hi = min(la.lo, lb.lo), max(la.hi, lb.hi)
        w = _bits_for(lo, hi)
        da = la.dom if la.dom is not None else (frozenset([la.lo]) if la.concrete else None)
        db = lb.dom if lb.dom is not None else (frozenset([lb.lo]) if lb.concrete else None)
        dom = (da | db) if (da is not None and db is not None and len(da) + len(db) <= 300) else None
        return SymInt(z3.If(c.e, la.ext(w), lb.ext(w)), lo, hi, dom)
    from .seq import SymBytes, as_symbytes
    sa, sb = as_symbytes(a), as_symbytes(b)
    if sa is not None and sb is not None and len(sa) == len(sb):
        return SymBytes([ite(c, x, y) for x, y in zip(sa.items, sb.items)])
    # fall back to forking
    return a if bool(c) else b


class SymInt:
    __slots__ = ("_e", "lo", "hi", "dom", "prov")

    def __init__(self, e, lo, hi, dom=None):
        self._e = e
        self.lo = lo
        self.hi = hi
        self.prov = None    # (table, index term) when this value is table[index] for a concrete table: lets a later look-up keyed by it be fused
        self.dom = dom      # optional finite set of possible values (table look-ups): lets comparisons with constants be decided without the solver

    def __copy__(self):
        return self

    def __deepcopy__(self, memo):    # a value, as int is
        return self

    @property
    def __class__(self):
        return int

    @property
    def concrete(self):
        return self.lo == self.hi

    @property
    def w(self):
        return self._e.size() if self._e is not None else _bits_for(self.lo, self.hi)

    def ext(self, w):
        """z3 expr of exactly width w (w >= needed)."""
        if self._e is None:
            return z3.BitVecVal(self.lo, w)
        cw = self._e.size()
        if cw == w:
            return self._e
        if cw < w:
            return z3.SignExt(w - cw, self._e)
        # narrowing is only legal if the interval fits
        assert _bits_for(self.lo, self.hi) <= w
        return z3.Extract(w - 1, 0, self._e)

    @staticmethod
    def mk(e, lo, hi):
        if lo == hi:
            return lo
        w = _bits_for(lo, hi)
        if e.size() > w:
            e = z3.Extract(w - 1, 0, e)
        return SymInt(e, lo, hi)

    # ---- arithmetic
    def _bin(self, o, op, rev=False):
        o = lift(o)
        if o is None:
            return NotImplemented
        a, b = (o, self) if rev else (self, o)
        return op(a, b)

    def __add__(self, o): return self._bin(o, _add)
    def __radd__(self, o): return self._bin(o, _add, True)
    def __sub__(self, o): return self._bin(o, _sub)
    def __rsub__(self, o): return self._bin(o, _sub, True)
    def __mul__(self, o): return self._bin(o, _mul)
    def __rmul__(self, o): return self._bin(o, _mul, True)
    def __floordiv__(self, o): return self._bin(o, _floordiv)
    def __rfloordiv__(self, o): return self._bin(o, _floordiv, True)
    def __mod__(self, o): return self._bin(o, _mod)
    def __rmod__(self, o): return self._bin(o, _mod, True)
    def __divmod__(self, o): return (self // o, self % o)
    def __and__(self, o): return self._bin(o, _and)
    def __rand__(self, o): return self._bin(o, _and, True)
    def __or__(self, o): return self._bin(o, _or)
    def __ror__(self, o): return self._bin(o, _or, True)
    def __xor__(self, o): return self._bin(o, _xor)
    def __rxor__(self, o): return self._bin(o, _xor, True)
    def __lshift__(self, o): return self._bin(o, _shl)
    def __rlshift__(self, o): return self._bin(o, _shl, True)
    def __rshift__(self, o): return self._bin(o, _shr)
    def __rrshift__(self, o): return self._bin(o, _shr, True)
    def __neg__(self): return _sub(lift(0), self)
    def __pos__(self): return self
    def __abs__(self): return ite(self < 0, -self, self)
    def __invert__(self): return _sub(lift(-1), self)

    def __pow__(self, e, m=None):
        if isinstance(e, (SymInt, SymBool)):
            e = concretize(e)
        if e < 0:
            raise SxUnsupported("negative pow")
        return spow(self, e, m)

    def __rpow__(self, base, m=None):
        e = concretize(self)
        return spow(base, e, m)

    # ---- comparisons
    def _cmp(self, o, sop, pyop):
        o = lift(o)
        if o is None:
            return NotImplemented
        # interval shortcuts
        r = pyop(self, o)
        if r is not None:
            return r
        if self.dom is not None and o.concrete:
            # finite-domain shortcut: the comparison has the same answer for every value the term can take
            k = o.lo
            rs = {bool(sop(v, k)) for v in self.dom}
            if len(rs) == 1:
                return rs.pop()
        w = max(self.w, o.w)
        return SymBool(sop(self.ext(w), o.ext(w)))

    def __lt__(self, o): return self._cmp(o, lambda a, b: a < b, lambda a, b: True if a.hi < b.lo else (False if a.lo >= b.hi else None))
    def __le__(self, o): return self._cmp(o, lambda a, b: a <= b, lambda a, b: True if a.hi <= b.lo else (False if a.lo > b.hi else None))
    def __gt__(self, o): return self._cmp(o, lambda a, b: a > b, lambda a, b: True if a.lo > b.hi else (False if a.hi <= b.lo else None))
    def __ge__(self, o): return self._cmp(o, lambda a, b: a >= b, lambda a, b: True if a.lo >= b.hi else (False if a.hi < b.lo else None))

    def __eq__(self, o):
        l = lift(o)
        if l is None:
            return False
        return self._cmp(l, lambda a, b: a == b, lambda a, b: False if (a.hi < b.lo or a.lo > b.hi) else None)

    def __ne__(self, o):
        r = self.__eq__(o)
        return snot(r)

    def __bool__(self):
        return bool(self != 0)

    def __hash__(self):
        return hash(concretize(self))

    def __index__(self):
        return concretize(self)

    def __int__(self):
        return concretize(self)

    def __repr__(self):
        return f"<sym[{self.lo},{self.hi}]>"

    def __format__(self, spec):
        if spec and spec[-1] in "bo":
            return format(concretize(self), spec)    # digit strings are consumed by code (Montgomery ladder): case split
        return "<sym>"                               # decimal / hex renderings only ever feed messages

    def __str__(self):
        return "<sym>"

    def bit_length(self):
        a = abs(self)
        a = lift(a)
        if a.concrete:
            return a.lo.bit_length()
        res = 0
        for k in range(a.hi.bit_length()):
            res = ite(a >= (1 << k), k + 1, res)
        return res

    def to_bytes(self, length=1, byteorder="big", *, signed=False):
        from .seq import SymBytes
        length = concretize(length)
        if signed:
            if length == 0:
                if self != 0:
                    raise OverflowError("int too big to convert")
                return b""
            if self < -(1 << (8 * length - 1)) or self >= (1 << (8 * length - 1)):
                raise OverflowError("int too big to convert")
        else:
            if self < 0:
                raise OverflowError("can't convert negative int to unsigned")
            if self >= (1 << (8 * length)):
                raise OverflowError("int too big to convert")
        w = max(self.w, 8 * length + 1)
        e = self.ext(w)
        items = []
        top = self.hi if self.lo >= 0 else (1 << (8 * length)) - 1
        for i in range(length):
            if self.lo >= 0 and (top >> (8 * i)) == 0:
                items.append(0)          # above the value's known magnitude: a zero byte, not a symbol
                continue
            b = z3.Extract(8 * i + 7, 8 * i, e)
            items.append(SymInt.mk(z3.ZeroExt(1, b), 0, min(255, top >> (8 * i)) if self.lo >= 0 else 255))
        if byteorder == "big":
            items.reverse()
        return SymBytes(items)


def _iv(e, lo, hi):
    return SymInt.mk(e, lo, hi)


def _add(a, b):
    lo, hi = a.lo + b.lo, a.hi + b.hi
    if lo == hi:
        return lo
    w = max(_bits_for(lo, hi), _bits_for(a.lo, a.hi), _bits_for(b.lo, b.hi))    # the sum of a negative and a positive interval may need fewer bits than an operand
    return _iv(a.ext(w) + b.ext(w), lo, hi)


def _sub(a, b):
    lo, hi = a.lo - b.hi, a.hi - b.lo
    if lo == hi:
        return lo
    w = _bits_for(lo, hi)
    w = max(w, a.w, b.w)
    return _iv(a.ext(w) - b.ext(w), lo, hi)


# Wide arithmetic abstraction (harness opt-in, for differential claims "library == transcription"):
# a product of two symbolic operands / a quotient by a non-power-of-two whose width exceeds
# ABSTRACT_BITS becomes an application of an uninterpreted z3 function. A claim proved for
# every interpretation holds for the real operator; a counterexample may be spurious and is
# caught by the mandatory concrete replay (reported as inconclusive, never as a violation).
ABSTRACT_BITS = None        # products of two symbolic operands wider than this become mul640(a, b)
ABSTRACT_DIV_BITS = None    # quotients wider than this become floordiv640(a, b)
_ABS_FUNCS = {}


def _abs_fn(kind, w):
    k = (kind, w)
    if k not in _ABS_FUNCS:
        s = z3.BitVecSort(w)
        _ABS_FUNCS[k] = z3.Function(f"{kind}{w}", s, s, s)
    return _ABS_FUNCS[k]


def _abs_width(w):
    # one shared width (hence one function symbol) for everything that fits, so that the two sides of a
    # differential claim meet in the same uninterpreted function whatever their interval bookkeeping says
    return 640 if w <= 640 else ((w + 639) // 640) * 640


def _mul(a, b):
    c = [a.lo * b.lo, a.lo * b.hi, a.hi * b.lo, a.hi * b.hi]
    lo, hi = min(c), max(c)
    if lo == hi:
        return lo
    w = max(_bits_for(lo, hi), a.w, b.w)
    if ABSTRACT_BITS is not None and w > ABSTRACT_BITS and not a.concrete and not b.concrete:
        aw = _abs_width(w)
        ea, eb = a.ext(aw), b.ext(aw)
        r = SymInt(_abs_fn("mul", aw)(ea, eb), -(1 << (aw - 1)), (1 << (aw - 1)) - 1)
        CUR.assume_z3(z3.And(r._e >= lo, r._e <= hi))
        return SymInt.mk(r._e, lo, hi)
    return _iv(a.ext(w) * b.ext(w), lo, hi)


def _divisor_check(b):
    if b.lo <= 0 <= b.hi:
        if bool(b == 0):
            raise ZeroDivisionError("integer division or modulo by zero")
        # now b != 0 on this path; intervals unchanged (conservative)


DIV_WITNESS_MIN_BITS = 20


def _divmod_const(a, b):
    """a // b, a % b for a concrete divisor b > 0 that is not a power of two, through a quotient/remainder witness:
    a == q*b + r and 0 <= r < b determine q and r uniquely (Python floor semantics), and a multiplication by a
    constant is far cheaper for the bit-blaster than a divider circuit."""
    key = ("divw", a._e.get_id(), b)
    hit = CUR.path_state.get(key)
    if hit is not None and hit[2].eq(a._e):      # the term is kept alive in the cache entry, so its id cannot be recycled
        return hit[0], hit[1]
    qlo, qhi = a.lo // b, a.hi // b
    q = CUR.fresh_var("divq", qlo, qhi)
    r = CUR.fresh_var("divr", 0, b - 1)
    w = max(a.w, _bits_for(qlo * b, qhi * b + b)) + 1
    CUR.assume_z3(a.ext(w) == lift(q).ext(w) * z3.BitVecVal(b, w) + lift(r).ext(w))
    CUR.path_state[key] = (q, r, a._e)
    return q, r


DIV_WITNESS = True


def _use_div_witness(a, b):
    return (DIV_WITNESS and b.concrete and b.lo > 2 and (b.lo & (b.lo - 1)) != 0 and not a.concrete and a.w >= DIV_WITNESS_MIN_BITS
            and CUR is not None and (ABSTRACT_DIV_BITS is None or a.w + 1 <= ABSTRACT_DIV_BITS))


def _mod(a, b):
    _divisor_check(b)
    if a.concrete and b.concrete:
        return a.lo % b.lo
    if _use_div_witness(a, b):
        return _divmod_const(a, b.lo)[1]
    if b.lo > 0:
        lo, hi = 0, b.hi - 1
        if a.lo >= 0:
            hi = min(hi, a.hi)
    elif b.hi < 0:
        lo, hi = b.lo + 1, 0
    else:
        lo, hi = min(b.lo + 1, 0), max(b.hi - 1, 0)
    w = max(a.w, b.w)
    if a.lo >= 0 and b.lo > 0:
        e = z3.URem(a.ext(w), b.ext(w))
    else:
        e = a.ext(w) % b.ext(w)  # bvsmod: sign follows divisor == python
    return _iv(e, lo, hi)


def _floordiv(a, b):
    _divisor_check(b)
    if a.concrete and b.concrete:
        return a.lo // b.lo
    if _use_div_witness(a, b):
        return _divmod_const(a, b.lo)[0]
    cands = []
    for x in (a.lo, a.hi):
        for y in (b.lo, b.hi, 1 if b.lo <= 1 <= b.hi else None, -1 if b.lo <= -1 <= b.hi else None):
            if y:
                cands.append(x // y)
    lo, hi = min(cands), max(cands)
    w = max(a.w, b.w) + 1
    if (ABSTRACT_DIV_BITS is not None and w > ABSTRACT_DIV_BITS and not a.concrete
            and not (b.concrete and b.lo > 0 and b.lo & (b.lo - 1) == 0)):
        aw = _abs_width(w)
        r = _abs_fn("floordiv", aw)(a.ext(aw), b.ext(aw))
        CUR.assume_z3(z3.And(r >= lo, r <= hi))
        return SymInt.mk(r, lo, hi)
    if a.lo >= 0 and b.lo > 0:
        e = z3.UDiv(a.ext(w), b.ext(w))
    else:
        ea, eb = a.ext(w), b.ext(w)
        e = (ea - (ea % eb)) / eb  # exact signed division
    return _iv(e, lo, hi)


def _bitw(a, b):
    w = max(a.w, b.w)
    return w, a.ext(w), b.ext(w)


def _and(a, b):
    if a.concrete and b.concrete:
        return a.lo & b.lo
    w, ea, eb = _bitw(a, b)
    if a.lo >= 0 and b.lo >= 0:
        lo, hi = 0, min(a.hi, b.hi)
    elif a.lo >= 0:
        lo, hi = 0, a.hi
    elif b.lo >= 0:
        lo, hi = 0, b.hi
    else:
        lo, hi = -(1 << (w - 1)), (1 << (w - 1)) - 1
    return _iv(ea & eb, lo, hi)


def _or(a, b):
    if a.concrete and b.concrete:
        return a.lo | b.lo
    w, ea, eb = _bitw(a, b)
    if a.lo >= 0 and b.lo >= 0:
        lo, hi = max(a.lo, b.lo), (1 << max(a.hi.bit_length(), b.hi.bit_length())) - 1
    else:
        lo, hi = -(1 << (w - 1)), (1 << (w - 1)) - 1
    return _iv(ea | eb, lo, hi)


def _xor(a, b):
    if a.concrete and b.concrete:
        return a.lo ^ b.lo
    w, ea, eb = _bitw(a, b)
    if a.lo >= 0 and b.lo >= 0:
        lo, hi = 0, (1 << max(a.hi.bit_length(), b.hi.bit_length())) - 1
    else:
        lo, hi = -(1 << (w - 1)), (1 << (w - 1)) - 1
    return _iv(ea ^ eb, lo, hi)


def _shl(a, b):
    if b.lo < 0:
        if bool(b < 0):
            raise ValueError("negative shift count")
        b = SymInt(b._e, 0, b.hi)
    if b.concrete:
        k = b.lo
        lo, hi = a.lo << k, a.hi << k
        if lo == hi:
            return lo
        w = _bits_for(lo, hi)
        return _iv(a.ext(w) << k, lo, hi)
    if b.hi > 4096:
        raise SxUnsupported("huge symbolic shift")
    lo, hi = min(a.lo << b.hi, a.lo), max(a.hi << b.hi, a.hi)
    w = max(_bits_for(lo, hi), b.w)
    return _iv(a.ext(w) << b.ext(w), lo, hi)


def _shr(a, b):
    if b.lo < 0:
        if bool(b < 0):
            raise ValueError("negative shift count")
        b = SymInt(b._e, 0, b.hi)
    if b.concrete:
        k = b.lo
        lo, hi = a.lo >> k, a.hi >> k
        if lo == hi:
            return lo
        if k >= a.w:
            k = a.w - 1
        return _iv(a.ext(a.w) >> k, lo, hi)
    w = max(a.w, b.w)
    lo, hi = min(a.lo, a.lo >> b.hi), max(a.hi, a.hi >> b.hi)
    # z3 >> on BitVecRef is arithmetic shift
    eb = b.ext(w) if b.w <= w else b.ext(b.w)
    return _iv(a.ext(w) >> eb, lo, hi)


def spow(base, e, m=None):
    """base ** e (% m) with concrete non-negative e, square and multiply."""
    if m is not None and e == -1:
        raise SxUnsupported("modular inverse must go through model")
    result = 1
    b = base
    if m is not None:
        b = b % m
    while e:
        if e & 1:
            result = result * b
            if m is not None:
                result = result % m
        e >>= 1
        if e:
            b = b * b
            if m is not None:
                b = b % m
    if m is not None:
        result = result % m
    return result


def concretize(x, cap=300):
    """Fork over every feasible concrete value of x (solver-driven case split)."""
    if isinstance(x, SymBool):
        return int(bool(x))
    if not isinstance(x, SymInt):
        return x
    if x.concrete:
        return x.lo
    n = 0
    while True:
        n += 1
        if n > cap:
            raise SxUnsupported(f"concretization fan-out > {cap}")
        v = CUR.pick_value(x)
        if bool(x == v):
            return v
