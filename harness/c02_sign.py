"""C02 — ECDSA signing, verification and key recovery on toy curves (real point arithmetic)."""
from sx.api import ob, sand, sor, snot, ite, implies, iff
from harness import toy

from btclib.curves.curve import mult
from btclib.ecc import dsa
from btclib.exceptions import BTClibValueError, BTClibRuntimeError


@ob("C02", "sign_then_verify_and_recover", quick=[dict(ec="ec13_11")], thorough=[dict(ec=c) for c in ("ec13_11", "ec17_13", "ec23_19", "ec13_19")],
    bound="private key q, nonce k in 1..n-1, challenge c in 0..n-1, lower_s flag: all symbolic at once, on the toy curves "
          "(quick: ec13_11 [n < p]; thorough: + ec17_13 [nominal cofactor 2], ec23_19, ec13_19); point arithmetic is the independent whole-group oracle",
    stubs=["curve.mult and curve._jac_double_mult are answered from an independent table of the whole curve group (the group law itself is C01's subject); "
           "mod_inv blinding factor is an arbitrary value of its range"],
    functions=["btclib.ecc.dsa._sign_recoverable_", "btclib.ecc.dsa._assert_as_valid_", "btclib.ecc.dsa._recover_pub_key_", "btclib.ecc.dsa.Sig.assert_valid",
               "btclib.ecc.dsa._recover_pub_keys_"],
    outside=["curves beyond the toy curves (secp256k1-size arithmetic is out of reach of the solver)", "the real point arithmetic inside these calls (see C01)"],
    timeout=1500, weight=10, query_timeout_ms=300000)
def sign_verify_recover(ex, ec):
    name = ec
    ec = toy.curve(name)
    g = toy.install_group_oracle(ex, name)
    n = ec.n
    q = ex.int("q", 1, n - 1)
    k = ex.int("k", 1, n - 1)
    low = ex.bool("low")
    c = ex.int("c", 0, n - 1)
    Ki = g.mul_idx(k, g.g)
    try:
        sig, key_id = dsa._sign_recoverable_(c, q, k, low, ec)
    except BTClibRuntimeError:
        r = g.xs[Ki] % n
        return ex.refuse("BTClibRuntimeError", only_if_r_or_s_zero=sor(r == 0, (c + r * q) % n == 0))
    Qi = g.mul_idx(q, g.g)
    Q = g.aff(Qi)
    claims = {"range": sand(0 < sig.r, sig.r < n, 0 < sig.s, sig.s < n),
              "low_s_when_asked": sor(snot(low), sig.s <= n // 2)}
    try:
        dsa.Sig(sig.r, sig.s, ec).assert_valid()
        claims["sig_object_valid"] = True
    except BTClibValueError:
        claims["sig_object_valid"] = False
    try:
        dsa._assert_as_valid_(c, (Q[0], Q[1], 1), sig.r, sig.s, ec, frozenset(), lower_s=low)
        claims["verifies"] = True
    except (BTClibValueError, BTClibRuntimeError):
        claims["verifies"] = False
    try:
        R = dsa._recover_pub_key_(key_id, c, sig.r, sig.s, ec, lower_s=low)
        claims["key_id_recovers_signer"] = g.idx_of_jac(R) == Qi
    except (BTClibValueError, BTClibRuntimeError):
        claims["key_id_recovers_signer"] = False
    keys = [g.idx_of_jac(P) for P in dsa._recover_pub_keys_(c, sig.r, sig.s, ec, lower_s=low)]
    claims["recover_pub_keys_contains_signer"] = sor(*[i == Qi for i in keys])
    return claims


@ob("C02", "verification_is_the_sec1_predicate", quick=[dict(ec=c) for c in toy.QUICK], thorough=[dict(ec=c) for c in ("ec13_11", "ec17_13", "ec19_13", "ec13_19", "ec23_19", "ec67_19h4")],      # orders 23 and 31 were solver-unknown at 200..440 s
    bound="c in 0..n-1, r and s in -1..n+1 (so zero, n and beyond are inside), public key = any non-infinity multiple of G, all symbolic at once; "
          "u*G + v*Q is taken from an independent table of the curve (the group law itself is C01's subject), everything else is the library's code",
    stubs=["curve._jac_double_mult(v, Q, u, G) returns the oracle's (u + v*q)G as a Jacobian point with Z = 1"],
    functions=["btclib.ecc.dsa._assert_as_valid_", "btclib.number_theory.mod_inv_var"], timeout=900, weight=4)
def verify_is_sec1(ex, ec):
    name = ec
    ec = toy.curve(name)
    n, p = ec.n, ec.p
    T = toy.multiples(name)
    qi = ex.int("qi", 1, n - 1)
    c = ex.int("c", 0, n - 1)
    r = ex.int("r", -1, n + 1)
    s = ex.int("s", -1, n + 1)
    low = ex.bool("low")
    xs = [0] + [P[0] for P in T[1:]]
    ys = [0] + [P[1] for P in T[1:]]
    from btclib.curves import curve as curve_mod

    def double_mult(u, HJ, v, QJ, ec_, fixed):
        # dsa calls _jac_double_mult(v, QJ, u, ec.GJ, ...): first pair is (v, Q), second (u, G)
        idx = (u * qi + v) % n
        return (xs[idx], ys[idx], ite(idx == 0, 0, 1))
    ex.stub(dsa._jac_double_mult, double_mult)
    QJ = (xs[qi], ys[qi], 1)
    try:
        dsa.Sig(r, s, ec, check_validity=False)
        # the public verification path checks the ranges through Sig.assert_valid; the core is handed what passed it
        in_range = sand(0 < r, r < n, 0 < s, s < n)
        if not in_range:
            return ex.refuse("out_of_range")
        dsa._assert_as_valid_(c, QJ, r, s, ec, frozenset(), lower_s=low)
        accepted = True
    except (BTClibValueError, BTClibRuntimeError):
        accepted = False
    # SEC 1 v2 4.1.4 with the oracle table
    w = pow(s, -1, n)
    idx = (c * w + r * w * qi) % n
    ref = sand(idx != 0, xs[idx] % n == r, sor(snot(low), s <= n // 2))
    return {"accept_iff_sec1": iff(accepted, ref)}


@ob("C02", "sig_validity_is_range_and_x_congruence", quick=[dict(ec=c) for c in toy.QUICK + ["ec67_29h2"]], thorough=[dict(ec=c) for c in toy.ALL],
    bound="r and s in -1..n+1 symbolic: Sig(r, s, ec).assert_valid() accepts exactly when both are in 1..n-1 and some r + j*n below p is the x-coordinate of a curve point "
          "(cofactor > 1 curves need j > 1: ec67_19h4 has p = 67, n = 19)",
    functions=["btclib.ecc.dsa.Sig.assert_valid", "btclib.curves.curve._is_x_coordinate_var"], timeout=600, min_ok=1)
def sig_validity(ex, ec):
    name = ec
    ec = toy.curve(name)
    g = toy.group(name)
    n, p = ec.n, ec.p
    r = ex.int("r", -1, n + 1)
    s = ex.int("s", -1, n + 1)
    xs_on_curve = sorted(set(g.xs[1:]))
    congruent = False
    for j in range(0, p // n + 1):
        for x in xs_on_curve:
            congruent = sor(congruent, r + j * n == x)
    want = sand(0 < r, r < n, 0 < s, s < n, congruent)
    try:
        dsa.Sig(r, s, ec)
        ok = True
    except BTClibValueError:
        ok = False
    return {"accept_iff_valid": iff(ok, want)}


@ob("C02", "key_id_recovers_exactly_the_signer", quick=[dict(ec="ec23_19")], thorough=[dict(ec=c) for c in ("ec23_19", "ec13_19", "ec17_23", "ec19_23", "ec23_31")],
    bound="private key q, nonce k in 1..n-1, challenge c in 0..n-1, lower_s flag symbolic at once; curves with n < p, where x_K >= n occurs and the recovery id must carry it",
    stubs=["curve.mult and curve._jac_double_mult are answered from the independent whole-group oracle"],
    functions=["btclib.ecc.dsa._sign_recoverable_", "btclib.ecc.dsa._recover_pub_key_"], timeout=1200, weight=9, query_timeout_ms=300000)
def key_id_recovers(ex, ec):
    name = ec
    ec = toy.curve(name)
    g = toy.install_group_oracle(ex, name)
    n = ec.n
    q = ex.int("q", 1, n - 1)
    k = ex.int("k", 1, n - 1)
    low = ex.bool("low")
    c = ex.int("c", 0, n - 1)
    try:
        sig, key_id = dsa._sign_recoverable_(c, q, k, low, ec)
    except BTClibRuntimeError:
        return ex.refuse("BTClibRuntimeError")
    Qi = g.mul_idx(q, g.g)
    try:
        R = dsa._recover_pub_key_(key_id, c, sig.r, sig.s, ec, lower_s=low)
        ok = g.idx_of_jac(R) == Qi
    except (BTClibValueError, BTClibRuntimeError):
        ok = False
    return {"key_id_recovers_signer": ok, "key_id_range": sand(key_id >= 0, key_id < 2 * (ec.cofactor + 1))}
