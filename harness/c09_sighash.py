"""C09 — signature hashes against transcriptions of the legacy algorithm, BIP143 and BIP341 (hashes = injective UFs)."""
from sx.api import ob, sand, sor, snot, ite, implies, iff
from refs import sighash as ref

from btclib import hashes as _hashes
from btclib.exceptions import BTClibValueError, BTClibTypeError
from btclib.script import sig_hash
from btclib.script.witness import Witness
from btclib.tx.out_point import OutPoint
from btclib.tx.tx import Tx
from btclib.tx.tx_in import TxIn
from btclib.tx.tx_out import TxOut

_STUBS = ["sha256 (hence hash256 and every tagged hash) is an injective uninterpreted function: a digest equality is an equality of preimages"]


def _mk_tx(ex, nin, nout, sym_scripts=True):
    version = ex.int("version", 0, 0xFFFFFFFF)
    lock = ex.int("lock", 0, 0xFFFFFFFF)
    vin_f, vin = [], []
    for i in range(nin):
        txid = ex.bytes(f"txid{i}_", 1) + bytes([0x10 + i]) * 31          # internal byte order as stored by OutPoint? see below
        idx = ex.int(f"idx{i}", 0, 0xFFFFFFFF)
        seq_ = ex.int(f"seq{i}", 0, 0xFFFFFFFF)
        op = OutPoint(txid, idx, check_validity=False)
        vin.append(TxIn(op, b"", seq_, Witness(), check_validity=False))
        vin_f.append((op.serialize(check_validity=False)[:32], idx, seq_))    # the 32 wire bytes of the txid, whatever order the object keeps
    vout_f, vout = [], []
    for j in range(nout):
        val = ex.int(f"val{j}", -(1 << 63), (1 << 63) - 1)
        spk = (ex.bytes(f"spk{j}_", 1) if sym_scripts else b"\x51") + bytes([0x14]) + bytes([0x20 + j]) * 20
        vout.append(TxOut(val, spk, check_validity=False))
        vout_f.append((val, spk))
    return Tx(version, lock, vin, vout, check_validity=False), version, lock, vin_f, vout_f


def _shapes(tier):
    if tier == "quick":
        return [(1, 1, 0), (2, 1, 1), (2, 2, 0), (1, 0, 0), (2, 3, 1)]
    return [(i, o, k) for i in (1, 2, 3) for o in (0, 1, 2, 3) for k in range(i)]


@ob("C09", "legacy_is_core_SignatureHash", quick=[dict(nin=i, nout=o, n_in=k) for i, o, k in _shapes("quick")],
    thorough=[dict(nin=i, nout=o, n_in=k) for i, o, k in _shapes("thorough")],
    bound="transactions with nin inputs / nout outputs (quick up to 2x3, thorough up to 3x3): version, lock time, every prevout index, sequence, value and ALL 32 bits of the hash type symbolic; "
          "first byte of each txid and output script symbolic; script code = 6 bytes with two symbolic bytes (so OP_CODESEPARATOR may appear inside or outside a push)",
    stubs=_STUBS, functions=["btclib.script.sig_hash.legacy", "btclib.script.sig_hash._without_op_codeseparators", "btclib.script.sig_hash._legacy_tx_copy"],
    timeout=900, weight=4)
def legacy(ex, nin, nout, n_in):
    from sx import instr
    if not ex.concrete:
        instr.HASH_INJECTIVE = True
    tx, version, lock, vin_f, vout_f = _mk_tx(ex, nin, nout)
    ht = ex.int("ht", 0, 0xFFFFFFFF)
    code = b"\x02" + ex.bytes("c", 2) + b"\xab\x51\xab"
    code = bytes([code[0]]) + code[1:] if ex.concrete else code
    got = sig_hash.legacy(code, tx, n_in, ht)
    pre = ref.legacy_preimage(version, lock, vin_f, vout_f, code, n_in, ht)
    if pre is None:
        return {"single_out_of_range_is_the_constant_one": got == b"\x01" + b"\x00" * 31}
    return {"digest_is_dsha256_of_core_preimage": got == _hashes.hash256(pre)}


@ob("C09", "script_code_scrubbing_matches_core", quick=[dict(L=l) for l in (1, 2, 3, 4)], thorough=[dict(L=l) for l in range(0, 7)],
    bound="every script code of L symbolic bytes: OP_CODESEPARATOR removal walks opcodes exactly like CScript (push data is skipped, a truncated push ends the walk)",
    functions=["btclib.script.sig_hash._without_op_codeseparators"], timeout=900)
def scrub(ex, L):
    code = ex.bytes("c", L)
    got = sig_hash._without_op_codeseparators(code)
    want = ref.remove_codeseparators(code)
    return {"same_bytes": sand(len(got) == len(want), got == want) if len(got) == len(want) else False}


@ob("C09", "segwit_v0_is_bip143", quick=[dict(nin=i, nout=o, n_in=k) for i, o, k in _shapes("quick")],
    thorough=[dict(nin=i, nout=o, n_in=k) for i, o, k in _shapes("thorough")],
    bound="same transaction shapes as the legacy obligation; amount symbolic over int64, all 32 bits of the hash type symbolic; direct and precomputed (PrecomputedTxData) computation",
    stubs=_STUBS, functions=["btclib.script.sig_hash.segwit_v0", "btclib.script.sig_hash.PrecomputedTxData.__init__"], timeout=900, weight=4)
def segwit_v0(ex, nin, nout, n_in):
    from sx import instr
    if not ex.concrete:
        instr.HASH_INJECTIVE = True
    tx, version, lock, vin_f, vout_f = _mk_tx(ex, nin, nout)
    ht = ex.int("ht", 0, 0xFFFFFFFF)
    amount = ex.int("amount", -(1 << 63), (1 << 63) - 1)
    code = b"\x76\xa9\x14" + ex.bytes("c", 1) + b"\x11" * 19 + b"\x88\xac"
    got = sig_hash.segwit_v0(code, tx, n_in, ht, amount)
    prevouts = [TxOut(1000 + i, b"\x00\x14" + bytes([0x30 + i]) * 20, check_validity=False) for i in range(nin)]
    pre_data = sig_hash.PrecomputedTxData(tx, prevouts)
    got2 = sig_hash.segwit_v0(code, tx, n_in, ht, amount, pre_data)
    pre = ref.bip143_preimage(version, lock, vin_f, vout_f, code, n_in, ht, amount, _hashes.hash256)
    return {"digest_is_dsha256_of_bip143_preimage": got == _hashes.hash256(pre), "precomputed_equals_direct": got2 == got}


def _tap_params(tier):
    out = []
    for i, o, k in _shapes(tier):
        for annex in (0, 1):
            for ext in (0, 1):
                if tier == "quick" and (annex + ext + i + o) % 2:
                    continue
                out.append(dict(nin=i, nout=o, n_in=k, annex=annex, ext=ext))
    return out


@ob("C09", "taproot_is_bip341_sigmsg", quick=_tap_params("quick"), thorough=_tap_params("thorough"),
    bound="same shapes; spent amounts symbolic, hash type symbolic over 0..255 (seven accepted), annex absent / 3 symbolic bytes after 0x50, tapleaf extension absent / 37 bytes with symbolic parts; direct and precomputed",
    stubs=_STUBS, functions=["btclib.script.sig_hash.taproot"], timeout=900, weight=4)
def taproot(ex, nin, nout, n_in, annex, ext):
    from sx import instr
    if not ex.concrete:
        instr.HASH_INJECTIVE = True
    tx, version, lock, vin_f, vout_f = _mk_tx(ex, nin, nout)
    ht = ex.int("ht", 0, 255)
    prev_f = [(ex.int(f"amt{i}", -(1 << 63), (1 << 63) - 1), b"\x51\x20" + ex.bytes(f"pk{i}_", 1) + bytes([0x40 + i]) * 31) for i in range(nin)]
    prevouts = [TxOut(a, s, check_validity=False) for a, s in prev_f]
    annex_b = (b"\x50" + ex.bytes("annex", 3)) if annex else b""
    ext_b = (ex.bytes("leaf", 2) + b"\x77" * 30 + b"\x00" + ex.bytes("cs", 4)) if ext else b""
    try:
        want = ref.bip341_sigmsg(version, lock, vin_f, vout_f, prev_f, n_in, ht, ext, annex_b, ext_b, _hashes.sha256)
        ref_ok = True
    except ValueError:
        ref_ok = False
    try:
        got = sig_hash.taproot(tx, n_in, prevouts, ht, ext, annex_b, ext_b)
    except BTClibValueError:
        return ex.refuse("BTClibValueError", refused_only_where_bip341_errors=not ref_ok)
    if not ref_ok:
        return {"bip341_error_is_refused": False}
    pre = sig_hash.PrecomputedTxData(tx, prevouts)
    got2 = sig_hash.taproot(tx, n_in, prevouts, ht, ext, annex_b, ext_b, pre)
    return {"digest_is_tagged_hash_of_sigmsg": got == _hashes.tagged_hash(b"TapSighash", want), "precomputed_equals_direct": got2 == got}


@ob("C09", "taproot_annex_and_ext_from_witness", quick=[dict(n=n) for n in (1, 2, 3, 4)],
    bound="witness stacks of 1..4 elements whose first bytes are symbolic (so the last element may or may not be an annex): the annex is recognised exactly per BIP341 "
          "(at least two elements and the last starts with 0x50) and the extension is built from the script and control block below it",
    stubs=_STUBS, functions=["btclib.script.sig_hash.taproot_annex_and_ext"], timeout=600)
def annex_and_ext(ex, n):
    from sx import instr
    if not ex.concrete:
        instr.HASH_INJECTIVE = True
    stack = [ex.bytes(f"w{i}_", 1) + bytes([0x60 + i]) * (2 + i) for i in range(n)]
    tx = Tx(2, 0, [TxIn(OutPoint(b"\x01" * 32, 0, check_validity=False), b"", 0, Witness(stack, check_validity=False), check_validity=False)], [], check_validity=False)
    try:
        annex, ext = sig_hash.taproot_annex_and_ext(tx, 0)
    except BTClibValueError:
        return ex.refuse("BTClibValueError")
    has_annex = sand(n >= 2, stack[-1][0] == 0x50) if n >= 2 else False
    rest = n - 1 if has_annex else n     # forks on the symbolic byte
    claims = {"annex_iff_bip341": iff(len(annex) > 0, has_annex), "ext_iff_script_path": (len(ext) > 0) == (rest > 1)}
    if rest > 1:
        leaf = _hashes.tagged_hash(b"TapLeaf", bytes([stack[rest - 1][0] & 0xFE]) + ref.ser_string(stack[rest - 2]))
        claims["ext_is_leaf_hash_keyversion_codesep"] = ext == leaf + b"\x00\xff\xff\xff\xff"
    return claims


# ------------------------------------------------------------------ digests computed through a PSBT
from btclib.psbt import psbt as _psbt
from btclib.psbt.psbt import Psbt
from btclib.psbt.psbt_in import PsbtIn
from btclib.psbt.psbt_out import PsbtOut

_XG = bytes.fromhex("79be667ef9dcbbac55a06295ce870b07029bfcdb2dce28d959f2815b16f81798")
_VALID_HT = (0, 1, 2, 3, 0x81, 0x82, 0x83)


@ob("C09", "psbt_taproot_digest_is_the_direct_one", quick=[dict(nin=n, own=o, arg=a, leaf=l) for n in (1, 2) for o in (0, 1) for a in (0, 1) for l in (0, 1) if (n + o + a + l) % 2 == 0 or n == 1]
    + [dict(nin=1, own=0, arg=1, leaf=0, sp=1), dict(nin=2, own=1, arg=0, leaf=1, sp=1)],
    thorough=[dict(nin=n, own=o, arg=a, leaf=l) for n in (1, 2, 3) for o in (0, 1) for a in (0, 1) for l in (0, 1)] + [dict(nin=n, own=o, arg=a, leaf=0, sp=1) for n in (1, 2) for o in (0, 1) for a in (0, 1)],
    bound="a version 0 PSBT (sp=1: a version 2 PSBT whose output also carries a BIP375 silent-payment address next to its script) with 1..3 taproot inputs (utxo amounts, sequences, lock time, version symbolic) and one output; the input's own PSBT_IN_SIGHASH_TYPE absent or symbolic over the seven valid types, "
          "the hash_type argument absent or symbolic over the seven valid types (0 included), key path and script path (symbolic leaf hash): psbt.taproot_sig_hash equals sig_hash.taproot on the "
          "unsigned transaction with the argument when given, else the input's own type, else SIGHASH_DEFAULT",
    stubs=_STUBS, functions=["btclib.psbt.psbt.taproot_sig_hash", "btclib.psbt.psbt._taproot_sig_hash", "btclib.script.sig_hash.taproot", "btclib.psbt.psbt_view.PsbtView.taproot_sig_hash"], min_ok=1, timeout=600)
def psbt_taproot_digest(ex, nin, own, arg, leaf, sp=0):
    from sx import instr
    if not ex.concrete:
        instr.HASH_INJECTIVE = True
    version = ex.int("version", 1, 0xFFFFFFFF)
    lock = ex.int("lock", 0, 0xFFFFFFFF)
    ins, spent = [], []
    for i in range(nin):
        amt = ex.int(f"amt{i}", 0, 2_100_000_000_000_000 // 4)
        spk = b"\x51\x20" + _XG
        seq_ = ex.int(f"seq{i}", 0, 0xFFFFFFFF)
        utxo = TxOut(amt, spk, check_validity=False)
        spent.append(utxo)
        ins.append((OutPoint(bytes([0x10 + i]) * 32, i, check_validity=False), seq_, utxo))
    tx = Tx(version, lock, [TxIn(op, b"", s, Witness(), check_validity=False) for op, s, _ in ins], [TxOut(1000, b"\x51\x20" + _XG, check_validity=False)], check_validity=False)
    p = Psbt.from_tx(tx, check_validity=False)
    if sp:
        # a version 2 PSBT whose output also carries its BIP375 silent-payment address (scan and spend key): the digest commits to the output *script*,
        # the address substitution belongs to the unique identifier only
        p = p.to_v2()
        p.outputs[0].sp_v0_info = b"\x02" + _XG + b"\x03" + _XG
    for k, (_, _, utxo) in enumerate(ins):
        p.inputs[k].witness_utxo = utxo
    own_ht = None
    if own:
        own_ht = ex.int("own_ht", 0, 0x83)
        ex.assume(sor(*[own_ht == v for v in _VALID_HT]))
        p.inputs[0].sig_hash_type = own_ht
    arg_ht = None
    if arg:
        arg_ht = ex.int("arg_ht", 0, 0x83)
        ex.assume(sor(*[arg_ht == v for v in _VALID_HT]))
    leaf_hash = (ex.bytes("lh", 2) + b"\x66" * 30) if leaf else b""
    if arg:
        effective = arg_ht
    elif own:
        effective = own_ht
    else:
        effective = 0
    ext = (leaf_hash + b"\x00" + (0xFFFFFFFF).to_bytes(4, "little")) if leaf else b""
    try:
        got = _psbt.taproot_sig_hash(p, 0, leaf_hash=leaf_hash, hash_type=arg_ht)
    except BTClibValueError:
        try:
            sig_hash.taproot(tx, 0, spent, effective, int(bool(leaf)), b"", ext)
        except BTClibValueError:
            return ex.refuse("BTClibValueError")
        return {"refused_although_the_direct_computation_answers": False}
    want = sig_hash.taproot(tx, 0, spent, effective, int(bool(leaf)), b"", ext)
    claims = {"psbt_digest_is_the_direct_digest": got == want}
    from btclib.psbt.psbt_view import PsbtView
    view = PsbtView(p.serialize(check_validity=False))
    claims["streamed_view_digest_is_the_direct_digest"] = view.taproot_sig_hash(0, leaf_hash=leaf_hash, hash_type=arg_ht) == want
    return claims


@ob("C09", "psbt_ecdsa_digest_is_the_direct_one", quick=[dict(kind=k, own=o, arg=a) for k in ("p2wpkh", "p2wsh", "p2pkh") for o in (0, 1) for a in (0, 1)],
    bound="a version 0 PSBT with two inputs of the named kind (amounts, sequences, lock time, version symbolic): psbt.ecdsa_sig_hash equals sig_hash.segwit_v0 / sig_hash.legacy on the unsigned "
          "transaction with the script code of that kind and the argument's hash type when given, else the input's own, else SIGHASH_ALL",
    stubs=_STUBS, functions=["btclib.psbt.psbt.ecdsa_sig_hash"], min_ok=1, timeout=600)
def psbt_ecdsa_digest(ex, kind, own, arg):
    from sx import instr
    if not ex.concrete:
        instr.HASH_INJECTIVE = True
    version = ex.int("version", 1, 0xFFFFFFFF)
    lock = ex.int("lock", 0, 0xFFFFFFFF)
    h20 = b"\x31" * 20
    wscript = b"\x51"
    ins = []
    for i in range(2):
        amt = ex.int(f"amt{i}", 0, 2_100_000_000_000_000 // 4)
        ins.append((OutPoint(bytes([0x20 + i]) * 32, i, check_validity=False), ex.int(f"seq{i}", 0, 0xFFFFFFFF), amt))
    tx = Tx(version, lock, [TxIn(op, b"", s, Witness(), check_validity=False) for op, s, _ in ins], [TxOut(1000, b"\x51\x20" + _XG, check_validity=False)], check_validity=False)
    p = Psbt.from_tx(tx, check_validity=False)
    for k, (op, s, amt) in enumerate(ins):
        if kind == "p2wpkh":
            p.inputs[k].witness_utxo = TxOut(amt, b"\x00\x14" + h20, check_validity=False)
        elif kind == "p2wsh":
            p.inputs[k].witness_utxo = TxOut(amt, b"\x00\x20" + _hashes.sha256(wscript), check_validity=False)
            p.inputs[k].witness_script = wscript
        else:
            prev = Tx(2, 0, [TxIn(OutPoint(b"\x09" * 32, 0, check_validity=False), b"\x51", 0xFFFFFFFF, Witness(), check_validity=False)],
                      [TxOut(7, b"\x51", check_validity=False)] * k + [TxOut(5000 + k, b"\x76\xa9\x14" + h20 + b"\x88\xac", check_validity=False)], check_validity=False)
            p.inputs[k].non_witness_utxo = prev
    own_ht = arg_ht = None
    valid = (1, 2, 3, 0x81, 0x82, 0x83)
    if own:
        own_ht = ex.int("own_ht", 1, 0x83)
        ex.assume(sor(*[own_ht == v for v in valid]))
        p.inputs[0].sig_hash_type = own_ht
    if arg:
        arg_ht = ex.int("arg_ht", 1, 0x83)
        ex.assume(sor(*[arg_ht == v for v in valid]))
    effective = arg_ht if arg else (own_ht if own else 1)
    if kind == "p2pkh":
        # the psbt's transaction spends output k of `prev`: rebuild with the right outpoints
        return _psbt_legacy(ex, p, tx, h20, effective, arg_ht)
    try:
        got = _psbt.ecdsa_sig_hash(p, 0, hash_type=arg_ht)
    except BTClibValueError:
        return ex.refuse("BTClibValueError")
    code = (b"\x76\xa9\x14" + h20 + b"\x88\xac") if kind == "p2wpkh" else wscript
    want = sig_hash.segwit_v0(code, tx, 0, effective, ins[0][2])
    from btclib.psbt.psbt_view import PsbtView
    view = PsbtView(p.serialize(check_validity=False))
    return {"psbt_digest_is_the_direct_digest": got == want, "streamed_view_digest_is_the_direct_digest": view.ecdsa_sig_hash(0, hash_type=arg_ht) == want}


def _psbt_legacy(ex, p, tx, h20, effective, arg_ht):
    # a legacy input must name the txid of its non_witness_utxo: rebuild the unsigned transaction over the real ids
    prevs = [i.non_witness_utxo for i in p.inputs]
    tx2 = Tx(tx.version, tx.lock_time, [TxIn(OutPoint(prevs[k].id, k, check_validity=False), b"", tx.vin[k].sequence, Witness(), check_validity=False) for k in range(2)], tx.vout, check_validity=False)
    q = Psbt.from_tx(tx2, check_validity=False)
    for k in range(2):
        q.inputs[k].non_witness_utxo = prevs[k]
        q.inputs[k].sig_hash_type = p.inputs[k].sig_hash_type
    try:
        got = _psbt.ecdsa_sig_hash(q, 0, hash_type=arg_ht)
    except BTClibValueError:
        return ex.refuse("BTClibValueError")
    want = sig_hash.legacy(b"\x76\xa9\x14" + h20 + b"\x88\xac", tx2, 0, effective)
    return {"psbt_digest_is_the_direct_digest": got == want}
