"""C13 — SLIP39 field arithmetic / secret sharing / Feistel, and BIP85's HMAC (hash functions uninterpreted)."""
import hmac as _hmac
import itertools

from sx.api import ob, sand, sor, snot, ite, implies, iff

from btclib import bip85
from btclib.bip32.bip32 import BIP32KeyData
from btclib.exceptions import BTClibValueError
from btclib.mnemonic import slip39


def _gf_mul_ref(a, b):
    """GF(2^8) multiplication modulo x^8 + x^4 + x^3 + x + 1 (Rijndael polynomial), carry-less, no tables."""
    if type(a) is int and type(b) is not int:
        a, b = b, a
    if type(b) is int and type(a) is not int:
        # multiplication by a constant is GF(2)-linear: the XOR of the images of the bits of a
        r = 0
        for i in range(8):
            r = r ^ ite(((a >> i) & 1) == 1, _gf_mul_ref(1 << i, b), 0)
        return r
    r = 0
    for i in range(8):
        r = r ^ ite(((b >> i) & 1) == 1, a << i, 0)
    for i in range(14, 7, -1):
        r = r ^ ite(((r >> i) & 1) == 1, 0x11B << (i - 8), 0)
    return r & 0xFF      # bits 8..14 are zero after the reduction; the mask only tells the engine's interval bookkeeping so


def _check_mul_cut():
    """The cut used below replaces slip39._mul by _gf_mul_ref: the two are compared on all 65536 operand pairs, concretely, on every run
    (a symbolic version of this comparison -- two 255-entry table look-ups against the bitwise product -- did not terminate)."""
    for a in range(256):
        for b in range(256):
            if slip39._mul(a, b) != _gf_mul_ref(a, b):
                raise AssertionError(f"slip39._mul({a}, {b}) is not GF(2^8) multiplication modulo 0x11B")


_CUT_OK = []


def _interp_params(tier):
    out = []
    for t in (2,):          # threshold 3 (three symbolic GF(256) interpolation terms) was solver-unknown at 480 s in every order: outside
        n = t + 1
        for subset in itertools.permutations(range(n), t):
            if tier == "quick" and (t == 3 or subset not in ((0, 1), (2, 1), (1, 2))):
                continue
            out.append(dict(t=t, subset=list(subset)))
    return out


@ob("C13", "slip39_interpolation_recovers_the_shared_byte", quick=_interp_params("quick"), thorough=_interp_params("thorough"),
    bound="one byte position (Shamir sharing in SLIP39 is bytewise): secret byte and digest byte symbolic, threshold 2 (threshold 3 was solver-unknown and is outside); member shares computed by the library's "
          "_interpolate at x = 0..t, then the secret (x = 255) and the digest share (x = 254) re-interpolated from the listed t-subset in the listed order",
    stubs=["slip39._mul is replaced by table-free GF(2^8) multiplication; the two are compared concretely on all 65536 operand pairs on every run (a finite, complete comparison)"],
    functions=["btclib.mnemonic.slip39._interpolate"],
    outside=["the full _split_secret/_recover_secret round trip with the HMAC digest share on 16..32-byte secrets: the GF(2)-linear algebra over more than one byte at a time is answered "
             "'unknown' by z3 at 60 s (no Gaussian elimination in the bit-vector back end)", "RS1024 checksum, mnemonic <-> share text, group logic"],
    timeout=900, weight=3, min_ok=1, query_timeout_ms=240000)
def interpolation(ex, t, subset):
    if not ex.path_state.get("cut_checked") and not _CUT_OK:
        _check_mul_cut()
        _CUT_OK.append(1)
    ex.stub(slip39._mul, _gf_mul_ref)
    sec = ex.bytes("s", 1)
    dig = ex.bytes("d", 1)
    pts = [(i, ex.bytes(f"r{i}_", 1)) for i in range(t - 2)] + [(254, dig), (255, sec)]
    shares = [v for _, v in pts[: t - 2]] + [slip39._interpolate(pts, i) for i in range(t - 2, t + 1)]
    chosen = [(i, shares[i]) for i in subset]
    return {"secret_recovered": slip39._interpolate(chosen, 255) == sec, "digest_share_recovered": slip39._interpolate(chosen, 254) == dig}


@ob("C13", "slip39_feistel_is_an_involution_pair", quick=[dict(L=l, ext=e) for l in (2, 16) for e in (0, 1)], thorough=[dict(L=l, ext=e) for l in (2, 4, 16, 32) for e in (0, 1)],
    bound="payload of L symbolic bytes, identifier symbolic (15 bits), iteration exponent symbolic 0..15, extendable flag as listed, fixed printable passphrase: decrypt(encrypt(m)) == m and encrypt(decrypt(m)) == m; "
          "the salt carries the identifier exactly when the share is not extendable",
    stubs=["pbkdf2-hmac-sha256 is an uninterpreted function of (password, salt, iterations)"],
    functions=["btclib.mnemonic.slip39._feistel", "btclib.mnemonic.slip39._round_function"], timeout=600, min_ok=1)
def feistel(ex, L, ext):
    m = ex.bytes("m", L)
    ident = ex.int("id", 0, (1 << 15) - 1)
    e = ex.concretize(ex.int("e", 0, 15))
    enc = slip39._feistel(m, "TREZOR", e, ident, bool(ext), decrypt=False)
    dec = slip39._feistel(enc, "TREZOR", e, ident, bool(ext), decrypt=True)
    dec2 = slip39._feistel(m, "TREZOR", e, ident, bool(ext), decrypt=True)
    enc2 = slip39._feistel(dec2, "TREZOR", e, ident, bool(ext), decrypt=False)
    return {"decrypt_of_encrypt": dec == m, "encrypt_of_decrypt": enc2 == m, "length_kept": len(enc) == L}


@ob("C13", "bip85_entropy_is_hmac_of_the_32_byte_key", quick=[dict()],
    bound="the derived private key is an arbitrary 32-byte value (symbolic, leading zero bytes included): the entropy is HMAC-SHA512(key = 'bip-entropy-from-k', msg = those 32 bytes)",
    stubs=["hmac-sha512 is an injective uninterpreted function", "BIP32 derivation is replaced by a key with arbitrary bytes (C07 covers derivation)"],
    functions=["btclib.bip85._entropy_from_der_path"], min_ok=1)
def bip85_entropy(ex):
    from sx import instr
    if not ex.concrete:
        instr.HASH_INJECTIVE = True
    key = ex.bytes("k", 32)
    child = BIP32KeyData(bytes.fromhex("0488ade4"), 3, b"\x00" * 4, 0x80000000, b"\x11" * 32, b"\x00" + key, check_validity=False)
    root = BIP32KeyData(bytes.fromhex("0488ade4"), 0, b"\x00" * 4, 0, b"\x22" * 32, b"\x00" + b"\x01" * 32, check_validity=False)
    ex.stub(bip85._derive, lambda r, idx, fv: child)
    got = bip85._entropy_from_der_path(root, "m/83696968h/0h/0h")
    want = _hmac.new(b"bip-entropy-from-k", key, "sha512").digest()
    return {"entropy_is_hmac_of_key": got == want, "length": len(got) == 64}


@ob("C13", "slip39_share_mnemonic_roundtrip_for_every_value_length", quick=[dict(nbytes=n) for n in range(16, 33, 2)],
    bound="a share of every legal value length (16, 18, ..., 32 bytes; the padding of the 10-bit words is 2, 6, 0, 4, 8, 2, 6, 0, 4 bits) with concrete value bytes, member index and member threshold "
          "symbolic over their 4-bit ranges (case split by the solver, the bit-string code of the library being text): share_from_mnemonic(mnemonic_from_share(s)) == s",
    functions=["btclib.mnemonic.slip39.mnemonic_from_share", "btclib.mnemonic.slip39.share_from_mnemonic"], outside=["symbolic share values (binary text of a symbolic integer)"], min_ok=1, timeout=600)
def share_roundtrip(ex, nbytes):
    mi = ex.concretize(ex.int("member_index", 0, 15))
    mt = ex.concretize(ex.int("member_threshold", 1, 16))
    value = bytes((37 * k + nbytes) & 0xFF for k in range(nbytes))
    s = slip39.Share(identifier=0x5A5A & 0x7FFF, extendable=True, iteration_exponent=1, group_index=2, group_threshold=2, group_count=3,
                     member_index=mi, member_threshold=mt, value=value)
    try:
        back = slip39.share_from_mnemonic(slip39.mnemonic_from_share(s))
    except BTClibValueError:
        return {"own_mnemonic_is_read_back": False}
    return {"same_share": back == s}


@ob("C13", "slip39_rs1024_checksum_verifies", quick=[dict(n=4), dict(n=17)], thorough=[dict(n=n) for n in (1, 4, 17, 30)],
    bound="n symbolic 10-bit word indexes (17 = the data words of a 20-word share, 30 = of a 33-word share), both customization strings: the three checksum words are 10-bit values and make "
          "the sequence verify; for n <= 4 the same words fail under the other customization string",
    functions=["btclib.mnemonic.slip39._rs1024_checksum", "btclib.mnemonic.slip39._rs1024_verify", "btclib.mnemonic.slip39._rs1024_polymod"],
    outside=["error detection (that up to three wrong words never verify): an XOR-unsatisfiability question the solver answered 'unknown' to in 300 s even for 4 data words",
             "the other-customization claim for 17 or more words (unknown)"], min_ok=1, timeout=900, query_timeout_ms=300000)
def rs1024(ex, n):
    ex.merge_conditionals()
    data = [ex.int(f"w{i:02d}", 0, 1023) for i in range(n)]
    claims = {}
    for ext in (False, True):
        cs = slip39._rs1024_checksum(data, ext)
        full = data + cs
        claims[f"checksum_words_in_range_{int(ext)}"] = sand(len(cs) == 3, *[sand(c >= 0, c <= 1023) for c in cs])
        claims[f"own_checksum_verifies_{int(ext)}"] = slip39._rs1024_verify(full, ext) == True           # noqa: E712
        if n <= 4:
            claims[f"other_customization_fails_{int(ext)}"] = slip39._rs1024_verify(full, not ext) == False  # noqa: E712
    return claims


# ------------------------------------------------------------------ BIP39 at the level of word indexes (the word lists and NFKD text are outside)
import hashlib as _hashlib
from btclib.mnemonic import bip39 as _bip39

_BIP39_STUBS = ["sha256 is an uninterpreted function (the checksum bits are arbitrary)", "the word list look-ups are stubbed: mnemonic_from_indexes records the indexes it is handed and answers a token, "
                "indexes_from_mnemonic answers the indexes under test; normalisation and language detection are the identity (text is outside)"]


def _bip39_install(ex, box):
    def to_words(indexes, lang, wordlists=None, separator=" "):
        box["indexes"] = list(indexes)
        return "@sentence@"
    ex.stub(_bip39.mnemonic_from_indexes, to_words)
    ex.stub(_bip39.indexes_from_mnemonic, lambda m, lang, *a, **k: list(box["indexes"]))
    ex.stub(_bip39.normalize_mnemonic, lambda m: m)
    ex.stub(_bip39.lang_from_mnemonic, lambda m: "en")


@ob("C13", "bip39_entropy_to_indexes_and_back", quick=[dict(nbytes=n) for n in (16, 20, 32)], thorough=[dict(nbytes=n) for n in (16, 20, 24, 28, 32)],
    bound="every entropy of 16 / 20 / 24 / 28 / 32 octets (all symbolic): the sentence has (8n + n/4) / 11 words whose indexes are the 11-bit slices of entropy || first n/4 bits of sha256(entropy), "
          "and reading those indexes back answers exactly the entropy's bits, leading zero octets included",
    stubs=_BIP39_STUBS, functions=["btclib.mnemonic.bip39.mnemonic_from_entropy", "btclib.mnemonic.bip39.entropy_from_mnemonic", "btclib.mnemonic.bip39._entropy_checksum",
                                   "btclib.mnemonic.entropy.wordlist_indexes_from_bin_str_entropy", "btclib.mnemonic.entropy.bin_str_entropy_from_wordlist_indexes"],
    outside=["word lists, languages, NFKD normalisation, the PBKDF2 seed (text is not symbolic)"], timeout=900, min_ok=1, weight=3, max_decisions=20000)
def bip39_roundtrip(ex, nbytes):
    box = {}
    _bip39_install(ex, box)
    ent = ex.bytes("ent", nbytes)
    cs_bits = nbytes // 4
    _bip39.mnemonic_from_entropy(ent, "en")
    idx = box["indexes"]
    nwords = (8 * nbytes + cs_bits) // 11
    E = int.from_bytes(ent, "big")
    digest = _hashlib.sha256(ent).digest()
    whole = (E << cs_bits) | (digest[0] >> (8 - cs_bits))
    claims = {"word_count": len(idx) == nwords}
    if len(idx) == nwords:
        claims["indexes_are_the_11_bit_slices_of_entropy_and_checksum"] = sand(*[idx[j] == ((whole >> (11 * (nwords - 1 - j))) & 2047) for j in range(nwords)])
    back = _bip39.entropy_from_mnemonic("@sentence@", "en")
    claims["reads_back_to_the_entropy"] = sand(len(back) == 8 * nbytes, int(back, 2) == E)
    return claims


@ob("C13", "bip39_sentence_is_accepted_exactly_with_its_checksum", quick=[dict(words=12), dict(words=24)], thorough=[dict(words=w) for w in (12, 15, 18, 21, 24)],
    bound="every list of 12 / 15 / 18 / 21 / 24 word indexes (each symbolic over 0..2047): entropy_from_mnemonic accepts exactly when the trailing words/3 bits are the first bits of sha256 of the "
          "leading 32*words/3 bits taken as octets, and then answers those bits",
    stubs=_BIP39_STUBS, functions=["btclib.mnemonic.bip39.entropy_from_mnemonic", "btclib.mnemonic.bip39._entropy_checksum", "btclib.mnemonic.entropy.bin_str_entropy_from_wordlist_indexes"],
    outside=["word counts the BIP does not define", "text"], timeout=900, min_ok=1, weight=3)
def bip39_checksum(ex, words):
    box = {"indexes": [ex.int(f"w{j}", 0, 2047) for j in range(words)]}
    _bip39_install(ex, box)
    cs_bits = words // 3
    ent_bits = 32 * cs_bits
    whole = 0
    for v in box["indexes"]:
        whole = whole * 2048 + v
    E = whole >> cs_bits
    digest = _hashlib.sha256(E.to_bytes(ent_bits // 8, "big")).digest()
    want = (whole & ((1 << cs_bits) - 1)) == (digest[0] >> (8 - cs_bits))
    try:
        back = _bip39.entropy_from_mnemonic("@sentence@", "en")
    except BTClibValueError:
        return ex.refuse("BTClibValueError", refused_only_a_wrong_checksum=snot(want))
    return {"accepted_only_the_right_checksum": want, "entropy_is_the_leading_bits": sand(len(back) == ent_bits, int(back, 2) == E)}
