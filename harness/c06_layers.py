"""C06 — the layers above the codecs: WIF and base58 address payloads, address <-> scriptPubKey, networks.

Base58Check itself is abstract here (a bijection between payloads and opaque strings; its digit arithmetic is the subject of the
base58 obligations in c06_text.py): what is decided is what the library does with the *payload* -- version prefixes, sizes,
compression marker, key range, script templates, and which network a string is read back as.  The bech32 side is the real code."""
from sx.api import ob, sand, sor, snot, ite, implies, iff

from btclib import b32, b58, base58, to_prv_key
from btclib.curves.curve import secp256k1
from btclib.exceptions import BTClibValueError, BTClibTypeError
from btclib.network import NETWORKS
from btclib.script import script_pub_key as spk
from btclib.script.script_pub_key import ScriptPubKey

N = secp256k1.n
_NETS = list(NETWORKS)
_B58_STUB = ["base58.decode / base58.encode are a bijection between payloads and opaque tokens: decode hands out the symbolic payload, encode records the payload it is given"]


class _Codec:
    """Abstract Base58Check: tokens are opaque strings, one per payload handed to `encode`; `decode` of the input token answers the symbolic payload."""

    def __init__(self, ex, payload):
        self.ex, self.payload, self.encoded = ex, payload, []

    def decode(self, v, out_size=None):
        assert v in ("@input@", b"@input@"), v
        if out_size is not None and len(self.payload) != out_size:
            raise BTClibValueError("valid checksum, invalid decoded size")
        return self.payload

    def encode(self, v, in_size=None):
        self.encoded.append(v)
        return b"@out%d@" % (len(self.encoded) - 1)

    def install(self):
        self.ex.stub(base58.decode, self.decode)
        self.ex.stub(base58.encode, self.encode)


@ob("C06", "wif_payload_is_read_exactly_and_written_back",
    quick=[dict(L=l, net=n, compr=c) for l in (33, 34) for n in (None, "mainnet", "testnet", "signet") for c in (None, True, False)] + [dict(L=l, net=None, compr=None) for l in (32, 35)],
    thorough=[dict(L=l, net=n, compr=c) for l in (32, 33, 34, 35) for n in [None] + _NETS for c in (None, True, False)],
    bound="every Base58Check payload of 32..35 octets (all symbolic: version prefix, key, compression marker), every requested network and compression: the WIF reader accepts exactly "
          "a known prefix (that of the requested network when one is given), 1 + 32 octets or 1 + 32 + 0x01, a key in 1..n-1, a compression that agrees with the request; it answers the key, "
          "a network carrying that very prefix (never one of the other type) and the compression; writing the answer back gives the payload read",
    stubs=_B58_STUB, functions=["btclib.to_prv_key._prv_keyinfo_from_wif", "btclib.to_prv_key._wif_network", "btclib.to_prv_key._wif_prv_key_and_compression", "btclib.b58.wif_from_prv_key"],
    timeout=300, min_ok=0)
def wif_payload(ex, L, net, compr):
    payload = ex.bytes("w", L)
    codec = _Codec(ex, payload)
    codec.install()
    prefix = payload[0]
    known = sor(prefix == 0x80, prefix == 0xEF)
    wanted = True if net is None else prefix == NETWORKS[net].wif[0]
    size_ok = L in (33, 34)
    marker_ok = True if L != 34 else payload[33] == 1
    compr_ok = compr is None or compr == (L == 34)
    q_ref = int.from_bytes(payload[1:33], "big")
    want = sand(known, wanted, size_ok, marker_ok, compr_ok, 0 < q_ref, q_ref < N)
    try:
        q, net_out, compr_out = to_prv_key.prv_keyinfo_from_prv_key("@input@", net, compr)
    except (BTClibValueError, BTClibTypeError):
        return ex.refuse("refused", refused_only_when_the_reference_refuses=snot(want))
    claims = {"accepted_only_what_the_reference_accepts": want, "key_is_the_payloads": q == q_ref, "compression_is_the_payloads": compr_out == (L == 34),
              "network_carries_the_prefix_read": NETWORKS[net_out].wif[0] == prefix,
              "network_is_the_requested_one": net is None or net_out == net,
              "network_type_is_the_prefixes": (NETWORKS[net_out].network_type == "main") == bool(prefix == 0x80)}
    back = b58.wif_from_prv_key(q, net_out, compr_out)
    claims["written_back_is_the_payload_read"] = sand(back == "@out0@", len(codec.encoded) == 1, codec.encoded[0] == payload)
    return claims


_TEMPLATES = {"p2pkh": lambda h: b"\x76\xa9\x14" + h + b"\x88\xac", "p2sh": lambda h: b"\xa9\x14" + h + b"\x87"}


@ob("C06", "base58_address_payload_is_read_exactly_and_is_inverse_to_the_script", quick=[dict(L=l) for l in (20, 21, 22)], thorough=[dict(L=l) for l in (1, 20, 21, 22, 25)],
    bound="every Base58Check payload of L octets (version prefix and hash symbolic): h160_from_address accepts exactly 21 octets under one of the four known prefixes, answers the type and a network that "
          "carries that prefix for that type (so a mainnet string is never read as a test one); ScriptPubKey.from_address builds the standard p2pkh / p2sh template over the 20 octets; "
          "address(), .address and address_from_h160 under the network read (and under every other network with the same prefix) write the payload back; a network of the other type writes another payload",
    stubs=_B58_STUB, functions=["btclib.b58.h160_from_address", "btclib.b58.address_from_h160", "btclib.script.script_pub_key.address", "btclib.script.script_pub_key.type_and_payload"],
    timeout=600, min_ok=0)
def base58_address_payload(ex, L):
    payload = ex.bytes("a", L)
    codec = _Codec(ex, payload)
    codec.install()
    prefix = payload[0]
    table = {0x00: ("p2pkh", "main"), 0x05: ("p2sh", "main"), 0x6F: ("p2pkh", "test"), 0xC4: ("p2sh", "test")}
    want = sand(L == 21, sor(*[prefix == k for k in table]))
    try:
        typ, h160, net = b58.h160_from_address("@input@")
    except BTClibValueError:
        return ex.refuse("BTClibValueError", refused_only_when_the_reference_refuses=snot(want))
    claims = {"accepted_only_what_the_reference_accepts": want, "hash_is_the_payloads": h160 == payload[1:]}
    claims["type_and_network_type_are_the_prefixes"] = sor(*[sand(prefix == k, typ == t, NETWORKS[net].network_type == nt) for k, (t, nt) in table.items()])
    claims["network_carries_the_prefix_for_that_type"] = getattr(NETWORKS[net], typ)[0] == prefix
    s = ScriptPubKey.from_address("@input@")
    script = s.script
    claims["script_is_the_standard_template"] = sand(len(script) == len(_TEMPLATES[typ](h160)), script == _TEMPLATES[typ](h160))
    claims["script_network_is_the_one_read"] = s.network == net
    claims["recognised_type_and_payload"] = sand(spk.type_and_payload(script)[0] == typ, spk.type_and_payload(script)[1] == h160)
    n0 = len(codec.encoded)
    outs = [spk.address(script, net), s.address, b58.address_from_h160(typ, h160, net)]
    claims["every_writer_writes_the_payload_read"] = sand(*[sand(o == "@out%d@" % (n0 + i), codec.encoded[n0 + i] == payload) for i, o in enumerate(outs)])
    for other in _NETS:
        k = len(codec.encoded)
        spk.address(script, other)
        same = NETWORKS[other].network_type == NETWORKS[net].network_type
        claims[f"written_for_{other}"] = (codec.encoded[k] == payload) if same else snot(codec.encoded[k] == payload)
    return claims


def _op_n(v):
    return ite(v == 0, 0, 0x50 + v)


@ob("C06", "segwit_address_and_script_pub_key_are_inverse", quick=[dict(L=l, net=n) for l in (20, 32) for n in ("mainnet", "testnet", "regtest")] + [dict(L=l, net="mainnet") for l in (2, 33, 40)] + [dict(L=l, net="signet") for l in (1, 41, 25)],
    thorough=[dict(L=l, net=n) for l in range(1, 42) for n in ("mainnet", "regtest")] + [dict(L=l, net=n) for l in (2, 20, 32, 40) for n in _NETS],
    bound="scriptPubKey = OP_n <L octets> with every version n in 0..16 (case split) and the program symbolic, every network: address() answers a string exactly for the BIP141 witness programs the library "
          "types (v0 of 20 / 32 octets, v1..16 of 2..40), that string reads back (ScriptPubKey.from_address, real bech32 / bech32m code) as the same script under a network with the same hrp, "
          "and witness_from_address answers (n, program)",
    functions=["btclib.script.script_pub_key.address", "btclib.script.script_pub_key.type_and_payload", "btclib.b32.address_from_witness", "btclib.b32.witness_from_address", "btclib.bech32.decode"],
    timeout=900, weight=3, min_ok=1)
def segwit_script_address(ex, L, net):
    prog = ex.bytes("p", L)
    ver = ex.concretize(ex.int("ver", 0, 16))      # case split (17 ways): the version symbolic through the checksum is segwit_address_roundtrip's subject
    script = _op_n(ver).to_bytes(1, "big") + bytes([L]) + prog
    is_program = sand(2 <= L, L <= 40, sor(ver != 0, L in (20, 32)))
    try:
        addr = spk.address(script, net)
    except BTClibValueError:
        return ex.refuse("BTClibValueError", refused_only_a_non_program=snot(is_program))
    if isinstance(addr, str) and addr == "":
        return {"no_address_only_for_a_non_program": snot(is_program)}
    claims = {"address_only_for_a_program": is_program}
    v2, p2, net2 = b32.witness_from_address(addr)
    claims["witness_read_back"] = sand(v2 == ver, p2 == prog)
    claims["network_read_back_has_the_same_hrp"] = NETWORKS[net2].hrp == NETWORKS[net].hrp
    s2 = ScriptPubKey.from_address(addr)
    claims["script_read_back"] = sand(len(s2.script) == len(script), s2.script == script)
    claims["hrp_written"] = addr[: len(NETWORKS[net].hrp) + 1] == NETWORKS[net].hrp + "1"
    return claims
