"""C06 — the layers above the codecs: WIF and base58 address payloads, address <-> scriptPubKey, networks.

Base58Check itself is abstract here (a bijection between payloads and opaque strings; its digit arithmetic is the subject of the
base58 obligations in c06_text.py): what is decided is what the library does with the *payload* -- version prefixes, sizes,
compression marker, key range, script templates, and which network a string is read back as.  The bech32 side is the real code."""
from sx.api import ob, sand, sor, snot, ite, implies, iff

from btclib import b32, b58, base58, to_prv_key
from btclib.curves.curve import secp256k1
from btclib.exceptions import BTClibValueError, BTClibTypeError
from btclib.network import NETWORKS
from btclib.script import script_pub_key as spk
from btclib.script.script_pub_key import ScriptPubKey

N = secp256k1.n
_NETS = list(NETWORKS)
_B58_STUB = ["base58.decode / base58.encode are a bijection between payloads and opaque tokens: decode hands out the symbolic payload, encode records the payload it is given"]


class _Codec:
    """Abstract Base58Check: tokens are opaque strings, one per payload handed to `encode`; `decode` of the input token answers the symbolic payload."""

    def __init__(self, ex, payload):
        self.ex, self.payload, self.encoded = ex, payload, []

    def decode(self, v, out_size=None):
        assert v in ("@input@", b"@input@"), v
        if out_size is not None and len(self.payload) != out_size:
            raise BTClibValueError("valid checksum, invalid decoded size")
        return self.payload

    def encode(self, v, in_size=None):
        self.encoded.append(v)
        return b"@out%d@" % (len(self.encoded) - 1)

    def install(self):
        self.ex.stub(base58.decode, self.decode)
        self.ex.stub(base58.encode, self.encode)


@ob("C06", "wif_payload_is_read_exactly_and_written_back",
    quick=[dict(L=l, net=n, compr=c) for l in (33, 34) for n in (None, "mainnet", "testnet", "signet") for c in (None, True, False)] + [dict(L=l, net=None, compr=None) for l in (32, 35)],
    thorough=[dict(L=l, net=n, compr=c) for l in (32, 33, 34, 35) for n in [None] + _NETS for c in (None, True, False)],
    bound="every Base58Check payload of 32..35 octets (all symbolic: version prefix, key, compression marker), every requested network and compression: the WIF reader accepts exactly "
          "a known prefix (that of the requested network when one is given), 1 + 32 octets or 1 + 32 + 0x01, a key in 1..n-1, a compression that agrees with the request; it answers the key, "
          "a network carrying that very prefix (never one of the other type) and the compression; writing the answer back gives the payload read",
    stubs=_B58_STUB, functions=["btclib.to_prv_key._prv_keyinfo_from_wif", "btclib.to_prv_key._wif_network", "btclib.to_prv_key._wif_prv_key_and_compression", "btclib.b58.wif_from_prv_key"],
    timeout=300, min_ok=0)
def wif_payload(ex, L, net, compr):
    payload = ex.bytes("w", L)
    codec = _Codec(ex, payload)
    codec.install()
    prefix = payload[0]
    known = sor(prefix == 0x80, prefix == 0xEF)
    wanted = True if net is None else prefix == NETWORKS[net].wif[0]
    size_ok = L in (33, 34)
    marker_ok = True if L != 34 else payload[33] == 1
    compr_ok = compr is None or compr == (L == 34)
    q_ref = int.from_bytes(payload[1:33], "big")
    want = sand(known, wanted, size_ok, marker_ok, compr_ok, 0 < q_ref, q_ref < N)
    try:
        q, net_out, compr_out = to_prv_key.prv_keyinfo_from_prv_key("@input@", net, compr)
    except (BTClibValueError, BTClibTypeError):
        return ex.refuse("refused", refused_only_when_the_reference_refuses=snot(want))
    claims = {"accepted_only_what_the_reference_accepts": want, "key_is_the_payloads": q == q_ref, "compression_is_the_payloads": compr_out == (L == 34),
              "network_carries_the_prefix_read": NETWORKS[net_out].wif[0] == prefix,
              "network_is_the_requested_one": net is None or net_out == net,
              "network_type_is_the_prefixes": (NETWORKS[net_out].network_type == "main") == bool(prefix == 0x80)}
    back = b58.wif_from_prv_key(q, net_out, compr_out)
    claims["written_back_is_the_payload_read"] = sand(back == "@out0@", len(codec.encoded) == 1, codec.encoded[0] == payload)
    return claims


_TEMPLATES = {"p2pkh": lambda h: b"\x76\xa9\x14" + h + b"\x88\xac", "p2sh": lambda h: b"\xa9\x14" + h + b"\x87"}


@ob("C06", "base58_address_payload_is_read_exactly_and_is_inverse_to_the_script", quick=[dict(L=l) for l in (20, 21, 22)], thorough=[dict(L=l) for l in (1, 20, 21, 22, 25)],
    bound="every Base58Check payload of L octets (version prefix and hash symbolic): h160_from_address accepts exactly 21 octets under one of the four known prefixes, answers the type and a network that "
          "carries that prefix for that type (so a mainnet string is never read as a test one); ScriptPubKey.from_address builds the standard p2pkh / p2sh template over the 20 octets; "
          "address(), .address and address_from_h160 under the network read (and under every other network with the same prefix) write the payload back; a network of the other type writes another payload",
    stubs=_B58_STUB, functions=["btclib.b58.h160_from_address", "btclib.b58.address_from_h160", "btclib.script.script_pub_key.address", "btclib.script.script_pub_key.type_and_payload"],
    timeout=600, min_ok=0)
def base58_address_payload(ex, L):
    payload = ex.bytes("a", L)
    codec = _Codec(ex, payload)
    codec.install()
    prefix = payload[0]
    table = {0x00: ("p2pkh", "main"), 0x05: ("p2sh", "main"), 0x6F: ("p2pkh", "test"), 0xC4: ("p2sh", "test")}
    want = sand(L == 21, sor(*[prefix == k for k in table]))
    try:
        typ, h160, net = b58.h160_from_address("@input@")
    except BTClibValueError:
        return ex.refuse("BTClibValueError", refused_only_when_the_reference_refuses=snot(want))
    claims = {"accepted_only_what_the_reference_accepts": want, "hash_is_the_payloads": h160 == payload[1:]}
    claims["type_and_network_type_are_the_prefixes"] = sor(*[sand(prefix == k, typ == t, NETWORKS[net].network_type == nt) for k, (t, nt) in table.items()])
    claims["network_carries_the_prefix_for_that_type"] = getattr(NETWORKS[net], typ)[0] == prefix
    s = ScriptPubKey.from_address("@input@")
    script = s.script
    claims["script_is_the_standard_template"] = sand(len(script) == len(_TEMPLATES[typ](h160)), script == _TEMPLATES[typ](h160))
    claims["script_network_is_the_one_read"] = s.network == net
    claims["recognised_type_and_payload"] = sand(spk.type_and_payload(script)[0] == typ, spk.type_and_payload(script)[1] == h160)
    n0 = len(codec.encoded)
    outs = [spk.address(script, net), s.address, b58.address_from_h160(typ, h160, net)]
    claims["every_writer_writes_the_payload_read"] = sand(*[sand(o == "@out%d@" % (n0 + i), codec.encoded[n0 + i] == payload) for i, o in enumerate(outs)])
    for other in _NETS:
        k = len(codec.encoded)
        spk.address(script, other)
        same = NETWORKS[other].network_type == NETWORKS[net].network_type
        claims[f"written_for_{other}"] = (codec.encoded[k] == payload) if same else snot(codec.encoded[k] == payload)
    return claims


def _op_n(v):
    return ite(v == 0, 0, 0x50 + v)


@ob("C06", "segwit_address_and_script_pub_key_are_inverse", quick=[dict(L=l, net=n) for l in (20, 32) for n in ("mainnet", "testnet", "regtest")] + [dict(L=l, net="mainnet") for l in (2, 33, 40)] + [dict(L=l, net="signet") for l in (1, 41, 25)],
    thorough=[dict(L=l, net=n) for l in range(1, 42) for n in ("mainnet", "regtest")] + [dict(L=l, net=n) for l in (2, 20, 32, 40) for n in _NETS],
    bound="scriptPubKey = OP_n <L octets> with every version n in 0..16 (case split) and the program symbolic, every network: address() answers a string exactly for the BIP141 witness programs the library "
          "types (v0 of 20 / 32 octets, v1..16 of 2..40), that string reads back (ScriptPubKey.from_address, real bech32 / bech32m code) as the same script under a network with the same hrp, "
          "and witness_from_address answers (n, program)",
    functions=["btclib.script.script_pub_key.address", "btclib.script.script_pub_key.type_and_payload", "btclib.b32.address_from_witness", "btclib.b32.witness_from_address", "btclib.bech32.decode"],
    timeout=900, weight=3, min_ok=1)
def segwit_script_address(ex, L, net):
    prog = ex.bytes("p", L)
    ver = ex.concretize(ex.int("ver", 0, 16))      # case split (17 ways): the version symbolic through the checksum is segwit_address_roundtrip's subject
    script = _op_n(ver).to_bytes(1, "big") + bytes([L]) + prog
    is_program = sand(2 <= L, L <= 40, sor(ver != 0, L in (20, 32)))
    try:
        addr = spk.address(script, net)
    except BTClibValueError:
        return ex.refuse("BTClibValueError", refused_only_a_non_program=snot(is_program))
    if isinstance(addr, str) and addr == "":
        return {"no_address_only_for_a_non_program": snot(is_program)}
    claims = {"address_only_for_a_program": is_program}
    v2, p2, net2 = b32.witness_from_address(addr)
    claims["witness_read_back"] = sand(v2 == ver, p2 == prog)
    claims["network_read_back_has_the_same_hrp"] = NETWORKS[net2].hrp == NETWORKS[net].hrp
    s2 = ScriptPubKey.from_address(addr)
    claims["script_read_back"] = sand(len(s2.script) == len(script), s2.script == script)
    claims["hrp_written"] = addr[: len(NETWORKS[net].hrp) + 1] == NETWORKS[net].hrp + "1"
    return claims


# ------------------------------------------------------------------ extended keys: version, key kind, depth rules, network
from btclib.bip32 import bip32 as _bip32
from btclib.bip32.bip32 import BIP32KeyData
from btclib import network as _network

# SLIP-0132's registered version bytes (transcribed): (private, public, network type)
_SLIP132 = [("0488ade4", "0488b21e", "main"), ("049d7878", "049d7cb2", "main"), ("0295b005", "0295b43f", "main"), ("04b2430c", "04b24746", "main"), ("02aa7a99", "02aa7ed3", "main"),
            ("04358394", "043587cf", "test"), ("044a4e28", "044a5262", "test"), ("024285b5", "024289ef", "test"), ("045f18bc", "045f1cf6", "test"), ("02575048", "02575483", "test")]


@ob("C06", "extended_key_payload_is_accepted_exactly_by_bip32_and_slip132", quick=[dict(depth0=d) for d in (0, 1)],
    bound="a 78-octet Base58Check payload with version (4 octets), depth, parent fingerprint, index, the key's first octet and its 32 remaining octets symbolic (chain code concrete): BIP32KeyData.b58decode "
          "accepts exactly a SLIP-0132 private version with a 0x00-prefixed scalar in 1..n-1, or a public version with a 02/03-prefixed x-coordinate of the curve, and a depth of zero only with a zero "
          "fingerprint and index; the network read off the version is of the version's type; b58encode writes the 78 octets back",
    stubs=_B58_STUB + ["'x is the abscissa of a curve point' is an arbitrary bit (the curve arithmetic is C01's subject)"],
    functions=["btclib.bip32.bip32.BIP32KeyData.b58decode", "btclib.bip32.bip32.BIP32KeyData.parse", "btclib.bip32.bip32._assert_valid_key", "btclib.bip32.bip32._assert_valid_depth_and_index",
               "btclib.bip32.bip32.BIP32KeyData.b58encode"], timeout=600, min_ok=1)
def xkey_payload(ex, depth0):
    ver = ex.bytes("ver", 4)
    depth = 0 if depth0 else ex.int("depth", 1, 255)
    fp = ex.bytes("fp", 4)
    index = ex.int("index", 0, 0xFFFFFFFF)
    k0 = ex.int("k0", 0, 255)
    body = ex.bytes("key", 32)
    on_curve = ex.int("on_curve", 0, 1)
    payload = ver + depth.to_bytes(1, "big") + fp + index.to_bytes(4, "big") + b"\x33" * 32 + k0.to_bytes(1, "big") + body
    codec = _Codec(ex, payload)
    codec.install()
    ex.stub(_bip32._cached_base58_decode, lambda a: codec.decode(a))
    ex.stub(_bip32._is_x_coordinate_var, lambda x, ec: on_curve == 1)
    q = int.from_bytes(body, "big")
    is_prv = sor(*[ver == bytes.fromhex(p) for p, _, _ in _SLIP132])
    is_pub = sor(*[ver == bytes.fromhex(p) for _, p, _ in _SLIP132])
    key_ok = sor(sand(is_prv, k0 == 0, 0 < q, q < N), sand(is_pub, sor(k0 == 2, k0 == 3), on_curve == 1))
    depth_ok = True if not depth0 else sand(fp == b"\x00" * 4, index == 0)
    want = sand(key_ok, depth_ok)
    try:
        x = BIP32KeyData.b58decode("@input@")
    except (BTClibValueError, BTClibTypeError):
        return ex.refuse("refused", refused_only_what_the_rules_refuse=snot(want))
    claims = {"accepted_only_what_the_rules_accept": want, "fields_are_the_payloads": sand(x.version == ver, x.depth == depth, x.parent_fingerprint == fp, x.index == index, x.key == payload[45:]),
              "private_iff_private_version": x.is_private == bool(is_prv)}
    ntype = _network.network_type_from_xkeyversion(ver)
    claims["network_type_is_the_versions"] = sor(*[sand(sor(ver == bytes.fromhex(a), ver == bytes.fromhex(b)), ntype == t) for a, b, t in _SLIP132])
    out = x.b58encode()
    claims["written_back_is_the_payload_read"] = sand(len(codec.encoded) == 1, codec.encoded[0] == payload)
    return claims
