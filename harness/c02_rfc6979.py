"""C02 — the deterministic nonce is RFC 6979 section 3.2's, HMAC an uninterpreted function (so for every function in its place)."""
import hashlib
import hmac as _hmac

from sx.api import ob, sand, sor, snot, ite, implies, iff

from btclib import utils as _utils
from btclib.curves import CURVES
from btclib.ecc import rfc6979_nonce as _rfc
from btclib.exceptions import BTClibValueError

_HF = {"sha256": hashlib.sha256, "sha1": hashlib.sha1, "sha512": hashlib.sha512}

_STUBS = ["hmac is an uninterpreted function of (key, message): K, V and every candidate T are arbitrary octets, so candidates outside 1..n-1 occur and the retry arm is explored",
          "the retry loop of 3.2.h is unrolled `retries` times (paths needing more candidates are cut by an assumption)"]


def _bound_candidates(ex, limit):
    real = _utils.int_from_bits

    def counted(octets, nlen):
        k = ex.path_state.get("ifb", 0) + 1
        ex.path_state["ifb"] = k
        if k > limit:
            ex.assume(False)
        return ex.unstubbed(real, octets, nlen)
    if not ex.concrete:
        ex.stub(_utils.int_from_bits, counted)
        ex.stub(_rfc.int_from_bits, counted)


# ---- RFC 6979, transcribed from sections 2.3.2-2.3.4 and 3.2 (q is the order, x the key, h1 the digest)
def _bits2int(b, qlen):
    v = int.from_bytes(b, "big")
    blen = 8 * len(b)
    return v >> (blen - qlen) if blen > qlen else v


def _int2octets(x, rolen):
    return x.to_bytes(rolen, "big")


def _bits2octets(h1, q, qlen, rolen):
    z1 = _bits2int(h1, qlen)
    z2 = z1 % q           # "z2 = z1 mod q" (the RFC allows the single conditional subtraction: same value)
    return _int2octets(z2, rolen)


def _H(hf, K, m):
    return _hmac.new(K, m, hf).digest()


def _rfc6979(ex, x, h1, q, hf, hlen, extra, retries):
    qlen = q.bit_length()
    rolen = (qlen + 7) // 8
    V = b"\x01" * hlen
    K = b"\x00" * hlen
    seed = _int2octets(x, rolen) + _bits2octets(h1, q, qlen, rolen) + extra
    K = _H(hf, K, V + b"\x00" + seed)
    V = _H(hf, K, V)
    K = _H(hf, K, V + b"\x01" + seed)
    V = _H(hf, K, V)
    out = None
    cands = []
    for _ in range(retries):
        T = b""
        while 8 * len(T) < qlen:
            V = _H(hf, K, V)
            T = T + V
        k = _bits2int(T, qlen)
        cands.append((k, sand(1 <= k, k <= q - 1)))
        K = _H(hf, K, V + b"\x00")
        V = _H(hf, K, V)
    # first acceptable candidate
    res = cands[-1][0]
    for k, ok in reversed(cands[:-1]):
        res = ite(ok, k, res)
    return res, sor(*[ok for _, ok in cands])


_CASES_Q = [dict(curve="secp256k1", hf="sha256", extra=0), dict(curve="secp256k1", hf="sha256", extra=32), dict(curve="secp160r1", hf="sha1", extra=0),
            dict(curve="secp521r1", hf="sha256", extra=0), dict(curve="secp112r2", hf="sha256", extra=0)]
_CASES_T = _CASES_Q + [dict(curve="secp224k1", hf="sha1", extra=0), dict(curve="secp384r1", hf="sha512", extra=5), dict(curve="secp128r2", hf="sha1", extra=1),
                       dict(curve="bpp320r1", hf="sha256", extra=0), dict(curve="secp192k1", hf="sha256", extra=32), dict(curve="secp521r1", hf="sha1", extra=0)]


@ob("C02", "deterministic_nonce_is_rfc6979", quick=[dict(c, retries=2) for c in _CASES_Q], thorough=[dict(c, retries=3) for c in _CASES_T],
    bound="catalogued curves whose order length is below, equal to and above the digest length (secp112r2/sha256, secp256k1/sha256, secp160r1/sha1: 161 bits vs 160, "
          "secp521r1/sha256: three HMAC blocks per candidate), private key in 1..n-1 and every digest octet symbolic, additional data of 0 / 32 symbolic octets, "
          "retry loop unrolled 2 (thorough 3) times: rfc6979_nonce_ returns the first candidate in 1..n-1 of RFC 6979 3.2 (bits2octets, int2octets, bits2int as the RFC writes them)",
    stubs=_STUBS, functions=["btclib.ecc.rfc6979_nonce.rfc6979_nonce_", "btclib.ecc.rfc6979_nonce._rfc6979_nonce_", "btclib.ecc.rfc6979_nonce.challenge_", "btclib.utils.int_from_bits"],
    outside=["the published RFC 6979 vectors (need the real HMAC values)", "low-R grinding and the sign-to-contract entropy (callers of the nonce function)"],
    timeout=600, min_ok=1, weight=2)
def nonce_is_rfc6979(ex, curve, hf, extra, retries):
    ec = CURVES[curve]
    h = _HF[hf]
    hlen = h().digest_size
    # the library reads the digest once in challenge_ and once per candidate
    _bound_candidates(ex, retries + 1)
    x = ex.int("x", 1, ec.n - 1)
    h1 = ex.bytes("h", hlen)
    xe = ex.bytes("e", extra) if extra else None
    ref, ref_found = _rfc6979(ex, x, h1, ec.n, h, hlen, xe or b"", retries)
    k = _rfc.rfc6979_nonce_(h1, x, ec, h, xe)
    return {"nonce_in_range": sand(1 <= k, k <= ec.n - 1), "a_candidate_was_acceptable": ref_found, "nonce_is_the_rfcs_first_acceptable_candidate": k == ref}


@ob("C02", "ecdsa_challenge_is_bits2int_mod_n", quick=[dict(curve=c, hf=h) for c, h in (("secp256k1", "sha256"), ("secp160r1", "sha256"), ("secp521r1", "sha256"), ("secp112r2", "sha1"), ("secp224k1", "sha1"))],
    thorough=[dict(curve=c, hf=h) for c in ("secp112r2", "secp128r2", "secp160r1", "secp192k1", "secp224k1", "secp256k1", "secp384r1", "secp521r1", "bpp320r1") for h in ("sha1", "sha256", "sha512")],
    bound="every digest octet symbolic: challenge_ is SEC 1 4.1.3 step 5 (the leftmost min(nlen, hashlen) bits as an integer) reduced mod n; a digest of the wrong size is refused",
    functions=["btclib.ecc.rfc6979_nonce.challenge_", "btclib.utils.int_from_bits"], timeout=300, min_ok=1)
def challenge_is_bits2int(ex, curve, hf):
    ec = CURVES[curve]
    h = _HF[hf]
    hlen = h().digest_size
    d = ex.bytes("h", hlen)
    c = _rfc.challenge_(d, ec, h)
    qlen = ec.n.bit_length()
    e = int.from_bytes(d, "big")
    if 8 * hlen > qlen:
        e = e >> (8 * hlen - qlen)
    claims = {"challenge_is_leftmost_bits_mod_n": c == e % ec.n}
    for bad in (hlen - 1, hlen + 1):
        try:
            _rfc.challenge_(bytes(bad), ec, h)
            claims[f"digest_of_{bad}_octets_refused"] = False
        except BTClibValueError:
            claims[f"digest_of_{bad}_octets_refused"] = True
    return claims


# ------------------------------------------------------------------ sign_: reproducible from (key, message) alone, with Core's low-R grinding
from btclib.ecc import dsa
from btclib.exceptions import BTClibRuntimeError


@ob("C02", "sign_is_rfc6979_with_core_low_r_grinding", quick=[dict(curve="secp192k1", attempts=2), dict(curve="secp112r2", attempts=2)],
    thorough=[dict(curve="secp256k1", attempts=2), dict(curve="secp192k1", attempts=3), dict(curve="secp160r1", attempts=3), dict(curve="secp112r2", attempts=2)],
    bound="catalogued curves with sha256 (the order of secp192k1 / secp256k1 fills its octets, so a high r occurs and the loop runs; on secp112r2 / secp160r1 every r is low); private key, the 32 digest octets, lower_s and grind symbolic; at most `attempts` grinding attempts of at most two nonce candidates each: "
          "sign_ returns the signature made under the RFC 6979 nonce with no additional data, or -- grinding, while r does not fit n_size octets as a signed integer -- under the nonce "
          "with additional data = the attempt counter as 32 little-endian octets (Core's CKey::Sign); the signature equation itself is abstract here (r, s are arbitrary functions of (c, q, k)), "
          "it is the subject of sign_then_verify_and_recover",
    stubs=_STUBS + ["dsa._sign_recoverable_(c, q, k, lower_s, ec) answers r = f(k), s = g(c, q, k, lower_s) for uninterpreted f, g with values in 1..n-1: every pattern of high / low r over the attempts occurs"],
    functions=["btclib.ecc.dsa.sign_", "btclib.ecc.dsa._grind_low_r", "btclib.ecc.dsa._grind_entropy", "btclib.ecc.dsa._is_low_r", "btclib.ecc.rfc6979_nonce._rfc6979_nonce_", "btclib.ecc.dsa._sign_"],
    outside=["the delegated (libsecp256k1) arm", "commitments (sign-to-contract entropy)"], timeout=900, weight=4)
def sign_is_reproducible(ex, curve, attempts):
    ec = CURVES[curve]
    retries = 2
    real_ifb = _utils.int_from_bits
    real_ge = dsa._grind_entropy
    nsz = ec.n_size
    fr = ex.uf("sig_r", nsz, injective=False)
    fs = ex.uf("sig_s", nsz, injective=False)

    def fake_sign_recoverable(c, q, k, lower_s, ec_):
        kb = k.to_bytes(nsz, "big")
        r = int.from_bytes(fr(kb), "big")
        s_ = int.from_bytes(fs(c.to_bytes(nsz, "big") + q.to_bytes(nsz, "big") + kb + (b"\x01" if lower_s else b"\x00")), "big")
        if not ex.concrete:
            ex.assume(sand(1 <= r, r < ec.n, 1 <= s_, s_ < ec.n))
        return dsa.Sig(r, s_, ec, check_validity=False), 0

    def counted_ifb(octets, nlen):
        k = ex.path_state.get("ifb", 0) + 1
        ex.path_state["ifb"] = k
        if k > retries:
            ex.assume(False)
        return ex.unstubbed(real_ifb, octets, nlen)

    def counted_ge(counter):
        ex.path_state["ifb"] = 0
        if counter >= attempts:
            ex.assume(False)
        return ex.unstubbed(real_ge, counter)
    ex.stub(dsa._sign_recoverable_, fake_sign_recoverable)
    if not ex.concrete:
        ex.stub(_rfc.int_from_bits, counted_ifb)
        ex.stub(_utils.int_from_bits, counted_ifb)
        ex.stub(dsa._grind_entropy, counted_ge)
    n = ec.n
    q = ex.int("q", 1, n - 1)
    d = ex.bytes("h", 32)
    low_c, grind_c = bool(ex.bool("low")), bool(ex.bool("grind"))      # case split: the library type-checks both flags as bool
    ex.path_state["ifb"] = -1                    # the challenge reads the digest once before the first attempt
    sig = dsa.sign_(d, q, None, low_c, ec, hashlib.sha256, grind=grind_c, verify=False)
    # reference: the challenge, then attempt i = 0, 1, ...
    e = int.from_bytes(d, "big")
    if 256 > n.bit_length():
        e = e >> (256 - n.bit_length())
    c = e % n
    top = 2 ** (8 * nsz - 1)
    want_r = want_s = None
    taken = False
    for i in range(attempts):
        extra = b"" if i == 0 else i.to_bytes(32, "little")
        k, _found = _rfc6979(ex, q, d, n, hashlib.sha256, 32, extra, retries)
        ex.path_state["ifb"] = -100
        ref, _ = fake_sign_recoverable(c, q, k, low_c, ec)
        if want_r is None:
            want_r, want_s = ref.r, ref.s
            taken = True if not grind_c else ref.r < top
        else:
            want_r, want_s = ite(taken, want_r, ref.r), ite(taken, want_s, ref.s)
            taken = sor(taken, ref.r < top)
    return {"signature_is_the_reference": sand(sig.r == want_r, sig.s == want_s),
            "low_r_when_grinding": True if not grind_c else sig.r < top}
