"""C05 — wire formats are canonical: parse and serialize are mutually inverse."""
from sx.api import ob, sand, sor, snot, ite, implies
from harness.common import octets_roundtrip, stream_roundtrip, resolve, LIB_ERRORS

from btclib import var_bytes, var_int
from btclib.exceptions import BTClibValueError, BTClibRuntimeError, BTClibTypeError


@ob("C05", "var_int_stream_roundtrip", quick=[dict(N=n) for n in range(0, 10)],
    bound="every stream of N bytes, N = 0..9 (9 = longest CompactSize), max_size = 2^64-1 so that all four widths are reachable",
    functions=["btclib.var_int.parse", "btclib.var_int.serialize", "btclib.var_int._size"], min_ok=0)
def var_int_stream(ex, N):
    return stream_roundtrip(ex, N, lambda s: var_int.parse(s, max_size=(1 << 64) - 1), var_int.serialize, size=var_int._size)


@ob("C05", "var_int_value_roundtrip", quick=[dict()],
    bound="every integer in [-1, 2^64] (both refusals included)", functions=["btclib.var_int.serialize", "btclib.var_int.parse"])
def var_int_value(ex):
    i = ex.int("i", -1, 1 << 64)
    try:
        b = var_int.serialize(i)
    except BTClibValueError:
        return ex.refuse("BTClibValueError", only_out_of_range=sor(i < 0, i > (1 << 64) - 1))
    j = var_int.parse(b, max_size=(1 << 64) - 1)
    return {"parse_of_serialize": j == i, "size": var_int._size(i) == len(b), "in_range": sand(i >= 0, i < (1 << 64))}


@ob("C05", "var_int_default_cap", quick=[dict(N=n) for n in (1, 3, 5, 9)],
    bound="every N-byte string, N in {1,3,5,9}; default max_size (MAX_SIZE = 0x02000000)", functions=["btclib.var_int.parse"])
def var_int_cap(ex, N):
    b = ex.bytes("b", N)
    try:
        i = var_int.parse(b)
    except BTClibValueError:
        return ex.refuse("BTClibValueError")
    ser = var_int.serialize(i)
    return {"below_cap": i <= var_int.MAX_SIZE, "canonical": ser == b[: len(ser)]}


@ob("C05", "var_bytes_stream_roundtrip", quick=[dict(N=n) for n in range(0, 13)], thorough=[dict(N=n) for n in range(0, 25)],
    bound="every stream of N bytes, N = 0..12 (quick) / 0..24 (thorough)", functions=["btclib.var_bytes.parse", "btclib.var_bytes.serialize"], min_ok=0)
def var_bytes_stream(ex, N):
    return stream_roundtrip(ex, N, var_bytes.parse, var_bytes.serialize, size=var_bytes._size)


@ob("C05", "var_bytes_length_boundaries", quick=[dict(L=l) for l in (0, 1, 252, 253, 254, 255, 256)],
    thorough=[dict(L=l) for l in (0, 1, 252, 253, 254, 255, 256, 0xFFFF, 0x10000, 0x10001)],
    bound="payload of concrete length L with the first 2 and last 1 bytes symbolic (rest zero filler); L crosses the 252/253 and 0xffff/0x10000 CompactSize boundaries",
    functions=["btclib.var_bytes.serialize", "btclib.var_bytes.parse"], timeout=900)
def var_bytes_boundaries(ex, L):
    head = ex.bytes("h", min(L, 2))
    tail = ex.bytes("t", 1 if L > 2 else 0)
    payload = head + bytes(max(L - len(head) - len(tail), 0)) + tail
    ser = var_bytes.serialize(payload)
    back = var_bytes.parse(ser)
    return {"parse_of_serialize": back == payload, "size": var_bytes._size(payload) == len(ser),
            "prefix_is_compactsize_of_len": ser[: len(ser) - L] == var_int.serialize(L)}


# --- generic table: (name, parse path, kwargs for parse, kwargs for serialize, mode, quick Ns, thorough Ns, required fns)
def _table():
    T = []

    def add(name, cls, pk=None, sk=None, mode="stream", q=(), t=None, size=None, fns=()):
        T.append(dict(name=name, cls=cls, pk=pk or {}, sk=sk or {}, mode=mode, q=list(q), t=list(t if t is not None else q), size=size, fns=list(fns)))
    cv = dict(check_validity=False)
    add("out_point", "btclib.tx.out_point:OutPoint", cv, cv, "both", q=[35, 36, 37], size="_serialized_size")
    add("tx_out", "btclib.tx.tx_out:TxOut", cv, cv, "both", q=range(8, 14), t=range(8, 22), size="_serialized_size")
    add("tx_in", "btclib.tx.tx_in:TxIn", cv, cv, "both", q=[40, 41, 42, 43], t=range(40, 50), size="_serialized_size")
    add("witness", "btclib.script.witness:Witness", cv, cv, "both", q=range(0, 9), t=range(0, 15), size="_serialized_size")
    add("block_header", "btclib.block.block_header:BlockHeader", cv, cv, "both", q=[79, 80, 81])
    add("ssa_sig", "btclib.ecc.ssa:Sig", cv, cv, "octets", q=[63, 64, 65])
    add("key_origin", "btclib.bip32.key_origin:BIP32KeyOrigin", cv, cv, "octets", q=[0, 3, 4, 5, 7, 8, 9, 12], t=range(0, 21))
    add("bip32_key_data", "btclib.bip32.bip32:BIP32KeyData", cv, cv, "octets", q=[77, 78, 79])
    add("bms_sig", "btclib.ecc.bms:Sig", cv, cv, "octets", q=[64, 65, 66])
    add("tx", "btclib.tx.tx:Tx", cv, dict(include_witness=True, check_validity=False), "both", q=range(9, 15), t=range(9, 20))
    add("block", "btclib.block.block:Block", cv, dict(include_witness=True, check_validity=False), "octets", q=[80, 81, 91, 92], t=[80, 81, 82, 90, 91, 92, 93])
    # p2p payloads
    add("p2p_message", "btclib.p2p.message:Message", cv, cv, "both", q=[23, 24, 25, 26], t=range(23, 30))
    add("p2p_ping", "btclib.p2p.keepalive:Ping", cv, cv, "octets", q=[7, 8, 9])
    add("p2p_pong", "btclib.p2p.keepalive:Pong", cv, cv, "octets", q=[7, 8, 9])
    add("p2p_verack", "btclib.p2p.handshake:Verack", cv, cv, "octets", q=[0, 1])
    add("p2p_getaddr", "btclib.p2p.negotiation:GetAddr", cv, cv, "octets", q=[0, 1])
    add("p2p_mempool", "btclib.p2p.negotiation:Mempool", cv, cv, "octets", q=[0, 1])
    add("p2p_sendheaders", "btclib.p2p.negotiation:SendHeaders", cv, cv, "octets", q=[0, 1])
    add("p2p_wtxidrelay", "btclib.p2p.negotiation:WtxidRelay", cv, cv, "octets", q=[0, 1])
    add("p2p_feefilter", "btclib.p2p.negotiation:FeeFilter", cv, cv, "octets", q=[7, 8, 9])
    add("p2p_sendaddrv2", "btclib.p2p.addrv2:SendAddrV2", cv, cv, "octets", q=[0, 1])
    add("p2p_inventory", "btclib.p2p.inventory:Inventory", cv, cv, "both", q=[35, 36, 37])
    add("p2p_inv", "btclib.p2p.inventory:Inv", cv, cv, "octets", q=[0, 1, 2, 37, 38], t=[0, 1, 2, 3, 37, 38, 73, 74])
    add("p2p_getdata", "btclib.p2p.inventory:GetData", cv, cv, "octets", q=[1, 37])
    add("p2p_notfound", "btclib.p2p.inventory:NotFound", cv, cv, "octets", q=[1, 37])
    add("p2p_getblocks", "btclib.p2p.inventory:GetBlocks", cv, cv, "octets", q=[36, 37, 69, 70], t=[4, 5, 36, 37, 38, 69, 70, 101])
    add("p2p_getheaders", "btclib.p2p.inventory:GetHeaders", cv, cv, "octets", q=[37, 69])
    add("p2p_headers", "btclib.p2p.inventory:Headers", cv, cv, "octets", q=[0, 1, 2, 82, 83], t=[0, 1, 2, 3, 82, 83, 163])
    add("p2p_netaddr", "btclib.p2p.address:NetworkAddress", cv, cv, "both", q=[25, 26, 27])
    add("p2p_tsnetaddr", "btclib.p2p.address:TimestampedNetworkAddress", cv, cv, "both", q=[29, 30, 31])
    add("p2p_addr", "btclib.p2p.address:Addr", cv, cv, "octets", q=[0, 1, 31, 32], t=[0, 1, 2, 31, 32, 61, 62])
    add("p2p_netaddrv2", "btclib.p2p.addrv2:NetworkAddressV2", cv, cv, "both", q=range(13, 19), t=range(13, 32))
    add("p2p_addrv2", "btclib.p2p.addrv2:AddrV2", cv, cv, "octets", q=[0, 1, 17, 18, 19], t=range(0, 28))
    add("p2p_version", "btclib.p2p.handshake:Version", cv, cv, "octets", q=[84, 85, 86, 87], t=range(84, 96))
    add("p2p_sendcmpct", "btclib.p2p.compact_blocks:SendCmpct", cv, cv, "octets", q=[8, 9, 10])
    add("p2p_getblocktxn", "btclib.p2p.compact_blocks:GetBlockTxn", cv, cv, "octets", q=[32, 33, 34, 35, 36], t=range(32, 42))
    add("p2p_blocktxn", "btclib.p2p.compact_blocks:BlockTxn", cv, cv, "octets", q=[32, 33, 43, 44], t=[32, 33, 34, 43, 44, 45, 54])
    add("p2p_cmpctblock", "btclib.p2p.compact_blocks:CmpctBlock", cv, cv, "octets", q=[89, 90, 96, 97], t=[89, 90, 91, 96, 97, 102, 103])
    add("p2p_getcfilters", "btclib.p2p.block_filters:GetCFilters", cv, cv, "octets", q=[36, 37, 38])
    add("p2p_getcfheaders", "btclib.p2p.block_filters:GetCFHeaders", cv, cv, "octets", q=[36, 37, 38])
    add("p2p_cfilter", "btclib.p2p.block_filters:CFilter", cv, cv, "octets", q=[33, 34, 35, 36], t=range(33, 42))
    add("p2p_cfheaders", "btclib.p2p.block_filters:CFHeaders", cv, cv, "octets", q=[65, 66, 98, 99], t=[65, 66, 67, 98, 99, 130])
    add("p2p_getcfcheckpt", "btclib.p2p.block_filters:GetCFCheckpt", cv, cv, "octets", q=[32, 33, 34])
    add("p2p_cfcheckpt", "btclib.p2p.block_filters:CFCheckpt", cv, cv, "octets", q=[33, 34, 66, 67], t=[33, 34, 35, 66, 67, 98])
    add("p2p_tx", "btclib.p2p.data:TxPayload", cv, cv, "octets", q=[10, 11], t=range(9, 16))
    return T


TABLE = _table()


def _mk(entry, tier_mode):
    cls = resolve(entry["cls"])
    parse = lambda b: cls.parse(b, **entry["pk"])          # noqa: E731
    ser = lambda o: o.serialize(**entry["sk"])              # noqa: E731
    size = (lambda o: getattr(o, entry["size"])()) if entry["size"] else None

    def h_stream(ex, N):
        return stream_roundtrip(ex, N, parse, ser, size=size)

    def h_octets(ex, N):
        return octets_roundtrip(ex, N, parse, ser)
    return h_stream, h_octets


for _e in TABLE:
    _hs, _ho = _mk(_e, None)
    _q = [dict(N=n) for n in _e["q"]]
    _t = [dict(N=n) for n in _e["t"]]
    _pf = resolve(_e["cls"]).parse.__func__
    _parse_name = _pf.__module__ + "." + _pf.__qualname__
    if _e["mode"] in ("stream", "both"):
        _hs.__module__ = __name__
        ob("C05", f"{_e['name']}_stream_roundtrip", quick=_q, thorough=_t, min_ok=0,
           bound=f"every stream of N bytes, N in {_e['q']} (quick) / {_e['t']} (thorough); parse kwargs {_e['pk']}",
           functions=[_parse_name])(_hs)
    if _e["mode"] in ("octets", "both"):
        _ho.__module__ = __name__
        ob("C05", f"{_e['name']}_octets_roundtrip", quick=_q, thorough=_t, min_ok=0,
           bound=f"every byte string of exactly N bytes, N in {_e['q']} (quick) / {_e['t']} (thorough); parse kwargs {_e['pk']}",
           functions=[_parse_name])(_ho)


# ---------------------------------------------------------------- transactions: templates and field-level round trips
from btclib.tx.tx import Tx
from btclib.tx.tx_in import TxIn
from btclib.tx.tx_out import TxOut
from btclib.tx.out_point import OutPoint
from btclib.script.witness import Witness
from btclib import hashes as _hashes
from harness.common import mkstream


def _template(nin, nout, wit):
    """A concrete valid transaction and the offsets of its structural bytes."""
    vin = []
    for i in range(nin):
        w = Witness([bytes([0x30 + i]) * 3, bytes([0x02 + i]) * 2]) if wit and i == 0 else Witness()
        vin.append(TxIn(OutPoint(bytes([i + 1]) * 32, i), bytes([0x51 + i]) * (2 if i else 0), 0xFFFFFFFD - i, w))
    vout = [TxOut(1000 * (j + 1), bytes([0x00, 0x14]) + bytes([7 + j]) * 20) for j in range(nout)]
    tx = Tx(2, 0x11223344, vin, vout)
    raw = tx.serialize(include_witness=True)
    off = []   # structural offsets
    p = 0
    off += [0, 1, 2, 3]; p = 4
    if tx.is_segwit:
        off += [4, 5]; p = 6
    off.append(p); p += 1                      # vin count
    for ti in vin:
        p += 32
        off += [p, p + 1, p + 2, p + 3]; p += 4      # vout index
        off.append(p); p += 1 + len(ti.script_sig)   # script length
        off += [p, p + 1, p + 2, p + 3]; p += 4      # sequence
    off.append(p); p += 1                      # vout count
    for to in vout:
        off += list(range(p, p + 8)); p += 8   # value
        off.append(p); p += 1 + len(to.script_pub_key.script)
    if tx.is_segwit:
        for ti in vin:
            off.append(p); p += 1              # stack count
            for el in ti.script_witness.stack:
                off.append(p); p += 1 + len(el)
    off += [p, p + 1, p + 2, p + 3]; p += 4
    assert p == len(raw), (p, len(raw))
    return raw, off


def _groups(raw, off, wit):
    lens = [o for o in off if o > 3 and raw[o] < 0x30]          # marker, flag, counts, script/witness lengths, zero bytes of fields
    g = {"marker_flag_counts": lens[:6], "script_lengths": lens[:10]}
    if wit:
        g["witness_lengths"] = lens[:3] + lens[-9:-4]
    g["version_locktime"] = off[:4] + off[-4:] + lens[:3]
    return g


_TEMPLATES = {"1in1out_wit": (1, 1, True), "2in2out_wit": (2, 2, True), "1in2out": (1, 2, False), "2in1out": (2, 1, False)}


def _tmpl_params(tier):
    out = []
    for name, (nin, nout, wit) in _TEMPLATES.items():
        raw, off = _template(nin, nout, wit)
        # groups of structural bytes made symbolic together (the rest of the template stays concrete)
        for g in _groups(raw, off, wit):
            if tier == "thorough" or g in ("marker_flag_counts", "witness_lengths"):
                out.append(dict(template=name, group=g))
    return out


@ob("C05", "tx_template_octets_roundtrip", quick=_tmpl_params("quick"), thorough=_tmpl_params("thorough"),
    bound="concrete 1-2 input / 1-2 output (segwit and legacy) transaction skeletons in which the named group of structural bytes "
          "(marker/flag/counts; witness counts and lengths; thorough: also script lengths, version and lock time) is symbolic and payload bytes are concrete",
    functions=["btclib.tx.tx.Tx.parse", "btclib.tx.tx.Tx.serialize", "btclib.script.witness.Witness.parse"], min_ok=1, timeout=900, weight=5)
def tx_template(ex, template, group):
    nin, nout, wit = _TEMPLATES[template]
    raw, off = _template(nin, nout, wit)
    sym = set(_groups(raw, off, wit)[group])
    from sx.api import MODE
    items = [ex.int(f"t{k:03d}", 0, 255) if k in sym else raw[k] for k in range(len(raw))]
    if ex.concrete:
        b = bytes(items)
    else:
        from sx.seq import mk_bytes
        b = mk_bytes(items)
    try:
        tx = Tx.parse(b, check_validity=False)
    except LIB_ERRORS as e:
        return ex.refuse(type(e).__name__)
    out = tx.serialize(include_witness=True, check_validity=False)
    stripped = tx.serialize(include_witness=False, check_validity=False)
    return {"reserialize_identity": sand(len(out) == len(b), out == b),
            "size": tx.size == len(b),
            "weight": tx.weight == 3 * len(stripped) + len(b),
            "vsize": tx.vsize == (tx.weight + 3) // 4,
            "segwit_iff_marker": tx.is_segwit == (len(stripped) != len(out))}


@ob("C05", "tx_fields_roundtrip", quick=[dict(nin=1, nout=1, wit=1), dict(nin=2, nout=1, wit=0), dict(nin=1, nout=2, wit=1), dict(nin=1, nout=1, wit=2), dict(nin=2, nout=1, wit=2)],
    thorough=[dict(nin=i, nout=o, wit=w) for i in (0, 1, 2, 3) for o in (0, 1, 2, 3) for w in (0, 1, 2) if not (w and i == 0)],
    bound="transactions of the given shape: version, lock time, every prevout index, sequence, value symbolic over their full 32/64-bit ranges, "
          "first byte of every script/witness element symbolic, lengths concrete (wit=2: a witness stack of two empty items); hash256 = uninterpreted function",
    stubs=["sha256 (hence hash256) is an uninterpreted function: the id claims hold for every hash function"],
    functions=["btclib.tx.tx.Tx.serialize", "btclib.tx.tx.Tx.parse", "btclib.tx.tx.Tx._serialized_size"], timeout=900, weight=4)
def tx_fields(ex, nin, nout, wit):
    version = ex.int("version", 0, 0xFFFFFFFF)
    lock = ex.int("lock", 0, 0xFFFFFFFF)
    vin = []
    for i in range(nin):
        if wit == 2 and i == 0:
            w = Witness([b"", b""], check_validity=False)      # a witness of empty items only is still a witness (BIP144: the stack is non-empty)
        else:
            w = Witness([ex.bytes(f"w{i}a", 1) + b"\x01\x02", ex.bytes(f"w{i}b", 1)], check_validity=False) if wit and i == 0 else Witness()
        vin.append(TxIn(OutPoint(ex.bytes(f"txid{i}", 2) + bytes([i + 1]) * 30, ex.int(f"vout{i}", 0, 0xFFFFFFFF), check_validity=False),
                        ex.bytes(f"ss{i}", 1) + b"\x51" * i, ex.int(f"seq{i}", 0, 0xFFFFFFFF), w, check_validity=False))
    vout = [TxOut(ex.int(f"val{j}", -(1 << 63), (1 << 63) - 1), ex.bytes(f"spk{j}", 1) + bytes([0x14]) + bytes([7 + j]) * 20, check_validity=False)
            for j in range(nout)]
    tx = Tx(version, lock, vin, vout, check_validity=False)
    full = tx.serialize(include_witness=True, check_validity=False)
    stripped = tx.serialize(include_witness=False, check_validity=False)
    try:
        back = Tx.parse(full, check_validity=False)
    except LIB_ERRORS as e:
        # the only objects that do not parse back: no input (the marker position reads as a count of zero)
        return {"only_input_less_transactions_do_not_parse_back": nin == 0}
    same = sand(back.version == version, back.lock_time == lock, len(back.vin) == nin, len(back.vout) == nout,
                *[sand(a.prev_out.tx_id == b.prev_out.tx_id, a.prev_out.vout == b.prev_out.vout, a.script_sig == b.script_sig,
                       a.sequence == b.sequence, len(a.script_witness.stack) == len(b.script_witness.stack),
                       *[x == y for x, y in zip(a.script_witness.stack, b.script_witness.stack)]) for a, b in zip(back.vin, vin)],
                *[sand(a.value == b.value, a.script_pub_key.script == b.script_pub_key.script) for a, b in zip(back.vout, vout)])
    claims = {"parse_of_serialize_equal_fields": same,
              "size": sand(tx._serialized_size(include_witness=True) == len(full), tx._serialized_size(include_witness=False) == len(stripped), tx.size == len(full)),
              "weight": tx.weight == 3 * len(stripped) + len(full),
              "vsize": tx.vsize == (tx.weight + 3) // 4,
              "txid_is_hash_of_stripped": tx.id == _hashes.hash256(stripped)[::-1],
              "wtxid_is_hash_of_full": tx.hash == _hashes.hash256(full)[::-1],
              "witness_is_serialized_iff_some_input_has_a_stack": (len(full) != len(stripped)) == bool(wit)}
    return claims


# ------------------------------------------------------------------ PSBT input / output maps: binary and dict round trips, field by field
from btclib.psbt.psbt_in import PsbtIn
from btclib.psbt.psbt_out import PsbtOut
from btclib.bip32.key_origin import BIP32KeyOrigin

_XONLY = bytes.fromhex("79be667ef9dcbbac55a06295ce870b07029bfcdb2dce28d959f2815b16f81798")
_PUB = b"\x02" + _XONLY


def _psbt_field(ex, cls, field):
    """(constructor keyword, value) with a few symbolic bytes / integers inside a structurally valid value."""
    s = lambda name, n=1: ex.bytes(name, n)
    origin = lambda tag: BIP32KeyOrigin(s(tag + "fp", 1) + b"\x02\x03\x04", [0x8000002C, 7], check_validity=False)   # path concrete: its dict form is decimal text
    if field == "hd_key_paths":
        return {_PUB: origin("o")}
    if field == "taproot_hd_key_paths":
        return {_XONLY: ([s("leaf") + b"\x07" * 31], origin("t"))}
    if field == "taproot_hd_key_paths_no_leaf":
        return {_XONLY: ([], origin("t"))}
    if field in ("redeem_script", "witness_script", "final_script_sig"):
        return s("scr") + b"\x51"
    if field == "taproot_internal_key":
        return s("ik") + _XONLY[1:]
    if field == "taproot_merkle_root":
        return s("mr") + b"\x09" * 31
    if field == "unknown":
        return {b"\xfc" + s("uk"): s("uv", 2)}
    if field in ("ripemd160_preimages", "hash160_preimages"):
        return {s("hk") + b"\x05" * 19: s("pv", 2)}
    if field in ("sha256_preimages", "hash256_preimages"):
        return {s("hk") + b"\x05" * 31: s("pv", 2)}
    if field == "sig_hash_type":
        return ex.int("sht", 0, 0xFFFFFFFF)
    if field in ("sequence", "output_index"):
        return ex.int("u32", 0, 0xFFFFFFFF)
    if field == "required_time_lock_time":
        return ex.int("tl", 500000000, 0xFFFFFFFF)
    if field == "required_height_lock_time":
        return ex.int("hl", 1, 499999999)
    if field == "previous_tx_id":
        return s("ptx") + b"\x0a" * 31
    if field == "amount":
        return ex.int("amt", 0, 2_100_000_000_000_000)
    if field == "script_pub_key":
        return s("spk") + b"\x51"
    if field == "taproot_tree":
        return [(ex.int("depth", 0, 128), 0xC0, s("ts") + b"\x51")]
    if field == "taproot_leaf_scripts":
        return {b"\xc0" + _XONLY + s("cb") + b"\x01" * 31: (s("ls") + b"\x51", 0xC0)}
    if field == "taproot_script_spend_signatures":
        return {_XONLY + s("lh") + b"\x02" * 31: s("sg") + b"\x03" * 63}
    if field == "taproot_key_spend_signature":
        return s("sg") + b"\x03" * 63
    if field == "final_script_witness":
        return Witness([s("w") + b"\x01"], check_validity=False)
    if field == "witness_utxo":
        return TxOut(123456789, s("spk") + b"\x51", check_validity=False)    # the dict form renders the value through decimal.Decimal (C code): concrete here
    raise ValueError(field)


_IN_FIELDS = ["hd_key_paths", "taproot_hd_key_paths", "taproot_hd_key_paths_no_leaf", "redeem_script", "witness_script", "final_script_sig", "taproot_internal_key", "taproot_merkle_root",
              "unknown", "ripemd160_preimages", "sha256_preimages", "hash160_preimages", "hash256_preimages", "sig_hash_type", "sequence", "output_index",
              "required_time_lock_time", "required_height_lock_time", "previous_tx_id", "taproot_leaf_scripts", "taproot_script_spend_signatures",
              "taproot_key_spend_signature", "final_script_witness", "witness_utxo"]
_V2_FIELDS = {"previous_tx_id", "output_index", "sequence", "required_time_lock_time", "required_height_lock_time", "amount", "script_pub_key"}
_OUT_FIELDS = ["hd_key_paths", "taproot_hd_key_paths", "taproot_hd_key_paths_no_leaf", "redeem_script", "witness_script", "taproot_internal_key", "unknown", "amount", "script_pub_key", "taproot_tree"]


@ob("C05", "psbt_map_fields_roundtrip", quick=[dict(cls=c, field=f) for c, fs in (("in", _IN_FIELDS), ("out", _OUT_FIELDS)) for f in fs],
    bound="a PSBT input or output map holding one field (each field of the class in turn) whose value is structurally valid with its leading bytes / integers symbolic over "
          "their whole range: parse(serialize()) and from_dict(to_dict()) rebuild an equal object and re-serialize to the same bytes",
    functions=["btclib.psbt.psbt_in.PsbtIn.from_dict", "btclib.psbt.psbt_out.PsbtOut.from_dict", "btclib.psbt.psbt_in.PsbtIn.parse", "btclib.psbt.psbt_out.PsbtOut.parse"],
    outside=["maps holding several fields at once; json.dumps/json.loads of the dict (C code); check_validity=True constraints on the symbolic bytes"], min_ok=1, timeout=300)
def psbt_map_fields(ex, cls, field):
    C = PsbtIn if cls == "in" else PsbtOut
    kw = field[:-8] if field.endswith("_no_leaf") else field
    obj = C(**{kw: _psbt_field(ex, cls, field)}, check_validity=False)
    ver = 2 if field in _V2_FIELDS else 0     # BIP370 fields are written only in a version 2 map
    raw = obj.serialize(psbt_version=ver, check_validity=False)
    back = C.parse(raw, psbt_version=ver, check_validity=False)
    again = C.from_dict(obj.to_dict(check_validity=False), check_validity=False)
    return {"parse_of_serialize_is_equal": back == obj,
            "reserialize_identity": back.serialize(psbt_version=ver, check_validity=False) == raw,
            "from_dict_of_to_dict_is_equal": again == obj,
            "dict_form_serializes_the_same": again.serialize(psbt_version=ver, check_validity=False) == raw}


# ------------------------------------------------------------------ whole PSBT: serialize / parse fixed point
from btclib.psbt.psbt import Psbt


@ob("C05", "whole_psbt_reserialization_is_a_fixed_point", quick=[dict(scenario=s, version=v) for s in ("disjoint_sigs", "shared_and_new", "updater_fields", "optional_ints") for v in (0, 2)],
    bound="a one-input one-output PSBT (version 0 and 2) populated as in C11's scenarios (partial signatures, unknown pairs at the three levels, utxos, derivations, taproot derivations, scripts, "
          "sighash type) with value bytes symbolic: parse(serialize(p)) == p, serialize(parse(serialize(p))) is the same bytes, and the dict form round-trips",
    functions=["btclib.psbt.psbt.Psbt.serialize", "btclib.psbt.psbt.Psbt.parse", "btclib.psbt.psbt.Psbt.from_dict"], outside=["PSBTs with several inputs; key order other than the serializer's own"], min_ok=1, timeout=600)
def whole_psbt(ex, scenario, version):
    from harness.c11_combine import _operand
    # the operand that holds the scenario's maps (for optional_ints the one with the integer: symbolic script bytes are psbt_map_fields_roundtrip's)
    p = _operand(ex, scenario, 0 if scenario == "optional_ints" else 1, version)
    raw = p.serialize(check_validity=False)
    try:
        back = Psbt.parse(raw, check_validity=False)
    except LIB_ERRORS as e:
        return {"own_serialization_parses": False}
    raw2 = back.serialize(check_validity=False)
    claims = {"parse_of_serialize_is_equal": back == p, "reserialize_identity": sand(len(raw2) == len(raw), raw2 == raw) if len(raw2) == len(raw) else False}
    if scenario != "updater_fields":       # the dict form of a TxOut goes through decimal.Decimal
        again = Psbt.from_dict(p.to_dict(check_validity=False), check_validity=False)
        claims["from_dict_of_to_dict_is_equal"] = again == p
    return claims


# ------------------------------------------------------------------ p2p envelope: the command field is accepted exactly by Core's rule
@ob("C05", "p2p_message_command_is_accepted_exactly_by_cores_rule", quick=[dict()],
    bound="a 24-octet header with an empty payload (right length and checksum), mainnet magic, all 12 command octets symbolic: Message.parse accepts exactly Core's IsMessageTypeValid -- printable "
          "ASCII 0x20..0x7e before the first NUL, NUL only after it --, the command read is those octets, it serializes back to the same 24 octets and the valid object parses back equal",
    functions=["btclib.p2p.message.Message.parse", "btclib.p2p.message._command_from_bytes", "btclib.p2p.message.Message.serialize", "btclib.p2p.message.Message.assert_valid"], min_ok=1, timeout=300)
def p2p_command_rule(ex):
    from btclib.p2p.message import Message
    from btclib import hashes as _h
    cmd = ex.bytes("cmd", 12)
    raw = bytes.fromhex("f9beb4d9") + cmd + (0).to_bytes(4, "little") + _h.hash256(b"")[:4]
    seen_nul = False
    ok = True
    for j in range(12):
        is_nul = cmd[j] == 0
        ok = sand(ok, ite(sor(seen_nul, is_nul), is_nul, sand(cmd[j] >= 0x20, cmd[j] <= 0x7E)))
        seen_nul = sor(seen_nul, is_nul)
    try:
        m = Message.parse(raw)
    except LIB_ERRORS:
        return ex.refuse("refused", refused_only_what_core_refuses=snot(ok))
    out = m.serialize()
    claims = {"accepted_only_what_core_accepts": ok, "reserialize_identity": sand(len(out) == 24, out == raw)}
    again = Message.parse(out)
    claims["valid_object_parses_back_equal"] = sand(again.command == m.command, again.magic == m.magic, again.payload == m.payload)
    return claims
