"""C15 — miniscript: predicted size, read-back, text round trip, and satisfactions the engine accepts (P2WSH context; signature checks abstract)."""
import dataclasses

from sx.api import ob, sand, sor, snot, ite, implies, iff

from btclib import hashes as _hashes
from btclib.descriptors import miniscript as ms
from btclib.exceptions import BTClibValueError, ScriptError
from btclib.script.engine import script as _escript
from btclib.script.engine import verify_input
from btclib.script.engine.flags import ScriptFlag
from btclib.script.witness import Witness
from btclib.tx.out_point import OutPoint
from btclib.tx.tx import Tx
from btclib.tx.tx_in import TxIn
from btclib.tx.tx_out import TxOut

_KEYHEX = {"A": "0279be667ef9dcbbac55a06295ce870b07029bfcdb2dce28d959f2815b16f81798", "B": "02c6047f9441ed7d6d3045406e95c07cd85c778e4b8cef3ca7abac09b95c709ee5",
           "C": "02f9308a019258c31049344f85f89d5229b531c845836f99b08601f113bce036f9"}
_KEY = {k: bytes.fromhex(v) for k, v in _KEYHEX.items()}
_PRE = b"\x5a" * 32
_H256 = _hashes.sha256(_PRE).hex()

# expression text (keys A, B, C; H = sha256 of the known preimage), and its spending condition as a function of what is available
_EXPRS = {
    "pk": ("pk(A)", lambda a: a["A"]),
    "and_v": ("and_v(v:pk(A),pk(B))", lambda a: a["A"] and a["B"]),
    "and_b": ("and_b(pk(A),s:pk(B))", lambda a: a["A"] and a["B"]),
    "or_b": ("or_b(pk(A),s:pk(B))", lambda a: a["A"] or a["B"]),
    "or_d": ("or_d(pk(A),pk(B))", lambda a: a["A"] or a["B"]),
    "or_c": ("t:or_c(pk(A),v:pk(B))", lambda a: a["A"] or a["B"]),
    "or_i": ("or_i(pk(A),pk(B))", lambda a: a["A"] or a["B"]),
    "andor": ("andor(pk(A),pk(B),pk(C))", lambda a: (a["A"] and a["B"]) or a["C"]),
    "older": ("and_v(v:pk(A),older(10))", lambda a: a["A"] and a["older"](10)),
    "after": ("and_v(v:pk(A),after(100))", lambda a: a["A"] and a["after"](100)),
    "hash": ("and_v(v:pk(A),sha256(" + _H256 + "))", lambda a: a["A"] and a["pre"]),
    "thresh": ("thresh(2,pk(A),s:pk(B),s:pk(C))", lambda a: (a["A"] + a["B"] + a["C"]) >= 2),
    "multi": ("multi(2,A,B,C)", lambda a: (a["A"] + a["B"] + a["C"]) >= 2),
    "recovery": ("or_d(pk(A),and_v(v:pk(B),older(144)))", lambda a: a["A"] or (a["B"] and a["older"](144))),
    "andor_older": ("andor(pk(A),older(10),pk(B))", lambda a: (a["A"] and a["older"](10)) or a["B"]),
    "nested": ("and_v(v:pk(A),or_d(pk(B),older(5)))", lambda a: a["A"] and (a["B"] or a["older"](5))),
    "j_wrap": ("and_v(v:pk(A),or_b(pk(B),a:pk(C)))", lambda a: a["A"] and (a["B"] or a["C"])),
    "and_n": ("and_n(pk(A),pk(B))", lambda a: a["A"] and a["B"]),
    "or_d_and_n": ("or_d(pk(A),and_n(pk(B),pk(C)))", lambda a: a["A"] or (a["B"] and a["C"])),
    "j": ("and_v(v:pk(A),j:pk(B))", lambda a: a["A"] and a["B"]),
    "n": ("and_v(v:pk(A),n:pk(B))", lambda a: a["A"] and a["B"]),
    "t_in_or_i": ("or_i(pk(A),and_v(v:pk(B),1))", lambda a: a["A"] or a["B"]),
    "l": ("or_d(pk(A),l:pk(B))", lambda a: a["A"] or a["B"]),
    "u": ("or_d(pk(A),u:pk(B))", lambda a: a["A"] or a["B"]),
    "pkh": ("and_v(v:pkh(A),pk(B))", lambda a: a["A"] and a["B"]),
    "thresh1": ("thresh(1,pk(A),s:pk(B))", lambda a: (a["A"] + a["B"]) >= 1),
    "thresh3": ("thresh(3,pk(A),s:pk(B),s:pk(C))", lambda a: (a["A"] + a["B"] + a["C"]) >= 3),
    "multi1": ("multi(1,A,B)", lambda a: (a["A"] + a["B"]) >= 1),
    "multi3": ("multi(3,A,B,C)", lambda a: (a["A"] + a["B"] + a["C"]) >= 3),
    "or_d_multi": ("or_d(multi(2,A,B),pk(C))", lambda a: (a["A"] and a["B"]) or a["C"]),
    "or_c_inner": ("and_v(or_c(pk(A),v:pk(B)),pk(C))", lambda a: (a["A"] or a["B"]) and a["C"]),
    "andor_deep": ("andor(pk(A),pk(B),and_v(v:pk(C),older(3)))", lambda a: (a["A"] and a["B"]) or (a["C"] and a["older"](3))),
    "or_i_older": ("or_i(and_v(v:pk(A),older(5)),pk(B))", lambda a: (a["A"] and a["older"](5)) or a["B"]),
    "thresh_sln": ("thresh(2,pk(A),s:pk(B),sln:older(10))", lambda a: (a["A"] + a["B"] + a["older"](10)) >= 2),
    "after_time": ("or_d(pk(A),and_v(v:pk(B),after(500000001)))", lambda a: a["A"] or (a["B"] and a["after"](500000001))),
    "andor_locks": ("andor(pk(A),after(100),and_v(v:pk(B),older(10)))", lambda a: (a["A"] and a["after"](100)) or (a["B"] and a["older"](10))),
    "or_i_two_afters": ("or_i(and_v(v:pk(A),after(10)),and_v(v:pk(B),after(500000010)))", lambda a: (a["A"] and a["after"](10)) or (a["B"] and a["after"](500000010))),
    "sdv": ("and_b(pk(A),sdv:older(10))", lambda a: a["A"] and a["older"](10)),
    "sjtv": ("thresh(1,pk(A),sjtv:pk(B))", lambda a: (a["A"] + a["B"]) >= 1),
    "v_multi": ("and_v(v:multi(1,A,B),pk(C))", lambda a: (a["A"] or a["B"]) and a["C"]),
    "andor_multi": ("andor(multi(2,A,B),older(3),pk(C))", lambda a: (a["A"] and a["B"] and a["older"](3)) or a["C"]),
    "thresh_multi": ("thresh(2,multi(1,A,B),a:pk(C),sln:after(5))", lambda a: ((a["A"] or a["B"]) + a["C"] + a["after"](5)) >= 2),
    "and_b_pkh_in_or_d": ("or_d(and_b(pk(A),a:pkh(B)),pk(C))", lambda a: (a["A"] and a["B"]) or a["C"]),
    "and_b_multi_pkh_in_andor": ("andor(and_b(multi(1,A),a:pkh(B)),pk(C),pk(C))", None),
    "and_b_in_or_b": ("or_b(and_b(pk(A),a:pkh(B)),a:pk(C))", lambda a: (a["A"] and a["B"]) or a["C"]),
    "and_b_in_thresh": ("thresh(1,and_b(pk(A),a:pkh(B)),a:pk(C))", lambda a: ((a["A"] and a["B"]) + a["C"]) >= 1),
    "multi_2_of_3_in_and": ("and_v(v:pk(C),multi(1,A,B))", lambda a: a["C"] and (a["A"] or a["B"])),
}
_EXPRS.pop("and_b_multi_pkh_in_andor")


def _text(name):
    t = _EXPRS[name][0]
    for k, v in _KEYHEX.items():
        t = t.replace("(" + k + ")", "(" + v + ")").replace("," + k + ",", "," + v + ",").replace("," + k + ")", "," + v + ")")
    return t


def _sig_for(k):
    return b"\x30\x06\x02\x01" + bytes([1 + "ABC".index(k)]) + b"\x02\x01\x01\x01"


@ob("C15", "compiled_script_has_the_predicted_size_and_reads_back", quick=[dict(expr=e) for e in _EXPRS], bound="each of 42 expressions (every binary combinator, thresh, multi, pkh, wrappers a s c v t j n l u, "
    "timelocks, a hash) in the P2WSH context: the script is as long as predicted, reads back (from_script) to an expression that compiles to the same bytes and equals the original, "
    "and the text form re-parses to the same expression; concrete structure, so one path each",
    functions=["btclib.descriptors.miniscript.parse", "btclib.descriptors.miniscript.from_script", "btclib.descriptors.miniscript.Miniscript.script"], min_ok=1, timeout=300)
def size_and_readback(ex, expr):
    node = ms.parse(_text(expr))
    script = node.script()
    back = ms.from_script(script, key_hashes={_hashes.hash160(k): k for k in _KEY.values()})
    return {"size_is_predicted": len(script) == node.script_size, "reads_back_to_the_same_expression": back == node, "read_back_compiles_to_the_same_bytes": back.script() == script,
            "text_reparses": ms.parse(str(node)) == node, "sane": node.is_sane == True}   # noqa: E712


@ob("C15", "timelock_numbers_size_and_readback", quick=[dict(frag=f, lo=lo, hi=hi) for f in ("older", "after") for lo, hi in ((1, 16), (17, 0x7F), (0x80, 0x7FFF), (0x8000, 0x7FFFFF), (0x800000, 0x7FFFFFFF))],
    bound="and_v(v:pk(A),older(n)) and after(n) with n symbolic over each push-size class (1..16, ..127, ..32767, ..8388607, ..2^31-1): the compiled script is as long as predicted and reads back "
          "to the same number",
    functions=["btclib.descriptors.miniscript._computed_script_size", "btclib.descriptors.miniscript._pushed_number", "btclib.descriptors.miniscript.from_script"], min_ok=1, timeout=300)
def timelock_numbers(ex, frag, lo, hi):
    n = ex.int("n", lo, hi)
    if hi <= 16:
        n = ex.concretize(n)          # OP_1..OP_16 are named commands: text
    base = ms.parse(_text("older" if frag == "older" else "after"))
    leaf = dataclasses.replace(base.subs[1], threshold=n)
    node = dataclasses.replace(base, subs=(base.subs[0], leaf))
    script = node.script()
    claims = {"size_is_predicted": len(script) == node.script_size}
    try:
        back = ms.from_script(script)
        claims["reads_back_to_the_same_number"] = sand(back.subs[1].fragment == frag, back.subs[1].threshold == n)
    except BTClibValueError:
        claims["own_script_reads_back"] = False
    return claims


def _flags():
    f = ScriptFlag(0)
    for name in ("P2SH", "WITNESS", "DERSIG", "LOW_S", "STRICTENC", "NULLFAIL", "NULLDUMMY", "CLEANSTACK", "MINIMALDATA", "MINIMALIF", "WITNESS_PUBKEYTYPE", "CHECKLOCKTIMEVERIFY",
                 "CHECKSEQUENCEVERIFY"):
        f |= ScriptFlag[name]
    return f


@ob("C15", "satisfaction_exists_only_when_the_condition_holds_and_the_engine_accepts_it", quick=[dict(expr=e) for e in _EXPRS],
    bound="each of the 42 expressions, with the availability of every key's signature and of the preimage symbolic booleans and the spending transaction's lock time (either side of the 500000000 "
          "threshold) and sequence symbolic: when satisfy() answers, the expression's spending condition holds for what was available, the witness is within the predicted size and element bounds, the op count the engine reaches is within max_ops, "
          "and verify_input accepts the P2WSH spend under the standard flags; satisfy() refuses exactly when the condition does not hold (every expression here is sane, so a "
          "non-malleable satisfaction exists whenever any does)",
    stubs=["script.dsa_verify answers True exactly for the (signature, key) pairs that were made available", "the spending condition is evaluated by a table of lambdas written from BIP379's semantics"],
    functions=["btclib.descriptors.miniscript.Miniscript.satisfy", "btclib.script.engine.verify_input"], outside=["tapscript context", "expressions that are not sane"],
    min_ok=1, timeout=600)
def satisfaction(ex, expr):
    text, cond = _EXPRS[expr]
    node = ms.parse(_text(expr))
    have = {k: bool(ex.bool("sig_" + k)) for k in "ABC" if k in text.replace("after", "").replace("and", "")}
    for k in "ABC":
        have.setdefault(k, False)
    pre = bool(ex.bool("preimage")) if "sha256" in text else False
    locktime = ex.int("locktime", 0, 0xFFFFFFFF) if "after" in text else 0
    sequence = ex.int("sequence", 0, 0xFFFFFFFF) if ("older" in text or "after" in text) else 0xFFFFFFFE
    spend = ms.SpendContext(sha256_preimages={bytes.fromhex(_H256): _PRE} if pre else {}, locktime=locktime, sequence=sequence, version=2)
    sigs = {_KEY[k]: _sig_for(k) for k in "ABC" if have[k]}
    avail = dict(have)
    avail["pre"] = pre
    avail["older"] = lambda v: bool(sand((sequence & (1 << 31)) == 0, (sequence & (1 << 22)) == (v & (1 << 22)), (v & 0xFFFF) <= (sequence & 0xFFFF)))
    avail["after"] = lambda v: bool(sand((locktime >= 500000000) == (v >= 500000000), v <= locktime, sequence != 0xFFFFFFFF))
    try:
        witness = node.satisfy(sigs, spend)
    except BTClibValueError:
        witness = None
    holds = cond(avail)
    if witness is None:
        # BIP379: a sane expression (property m) has a non-malleable satisfaction for every way its condition can be met
        return {"refused_only_when_the_condition_fails": not holds}
    claims = {"condition_holds": bool(holds)}
    script = node.script()
    size = sum(1 + len(e) for e in witness)      # one length byte per element (all below 253 bytes)
    if node.max_witness_size is not None:
        claims["within_predicted_witness_size"] = size <= node.max_witness_size
    if node.max_stack_items is not None:
        claims["within_predicted_stack_items"] = len(witness) <= node.max_stack_items
    ok_pairs = {(_sig_for(k)[:-1], _KEY[k]) for k in "ABC" if have[k]}
    ex.stub(_escript.dsa_verify, lambda m, pk, s: (bytes(s), bytes(pk)) in ok_pairs)
    counted = [0]
    real_count = _escript.script_op_count

    def counting(count, increment):
        r = ex.unstubbed(real_count, count, increment)
        counted[0] = max(counted[0], r)
        return r
    ex.stub(_escript.script_op_count, counting)
    spk = b"\x00\x20" + _hashes.sha256(script)
    tx = Tx(2, locktime, [TxIn(OutPoint(b"\x01" * 32, 0, check_validity=False), b"", sequence, Witness(list(witness) + [script], check_validity=False), check_validity=False)],
            [TxOut(1000, b"\x51", check_validity=False)], check_validity=False)
    try:
        verify_input([TxOut(2000, spk, check_validity=False)], tx, 0, _flags())
        claims["engine_accepts_the_satisfaction"] = True
    except (ScriptError, BTClibValueError):
        claims["engine_accepts_the_satisfaction"] = False
    if node.max_ops is not None:
        claims["ops_counted_by_the_engine_within_max_ops"] = counted[0] <= node.max_ops
    return claims


# ------------------------------------------------------------------ tapscript context
from btclib.script.engine import tapscript as _tapscript

_XKEYHEX = {k: v[2:] for k, v in _KEYHEX.items()}
_XKEY = {k: bytes.fromhex(v) for k, v in _XKEYHEX.items()}
_TAP_EXPRS = {
    "pk": ("pk(A)", lambda a: a["A"]),
    "and_v": ("and_v(v:pk(A),pk(B))", lambda a: a["A"] and a["B"]),
    "or_d": ("or_d(pk(A),pk(B))", lambda a: a["A"] or a["B"]),
    "or_i": ("or_i(pk(A),pk(B))", lambda a: a["A"] or a["B"]),
    "andor": ("andor(pk(A),pk(B),pk(C))", lambda a: (a["A"] and a["B"]) or a["C"]),
    "multi_a2": ("multi_a(2,A,B,C)", lambda a: (a["A"] + a["B"] + a["C"]) >= 2),
    "multi_a1": ("multi_a(1,A,B)", lambda a: (a["A"] + a["B"]) >= 1),
    "multi_a3": ("multi_a(3,A,B,C)", lambda a: (a["A"] + a["B"] + a["C"]) >= 3),
    "thresh": ("thresh(2,pk(A),s:pk(B),s:pk(C))", lambda a: (a["A"] + a["B"] + a["C"]) >= 2),
    "older": ("and_v(v:pk(A),older(10))", lambda a: a["A"] and a["older"](10)),
    "recovery": ("or_d(pk(A),and_v(v:pk(B),older(144)))", lambda a: a["A"] or (a["B"] and a["older"](144))),
    "hash": ("and_v(v:pk(A),sha256(" + _H256 + "))", lambda a: a["A"] and a["pre"]),
}


def _tap_text(name):
    t = _TAP_EXPRS[name][0]
    for k, v in _XKEYHEX.items():
        t = t.replace("(" + k + ")", "(" + v + ")").replace("," + k + ",", "," + v + ",").replace("," + k + ")", "," + v + ")")
    return t


@ob("C15", "tapscript_satisfaction_and_size", quick=[dict(expr=e) for e in _TAP_EXPRS],
    bound="12 expressions in the tapscript context (x-only keys, multi_a, CHECKSIGADD): predicted size, read-back, text re-parse; and with the availability of each signature and the preimage and the "
          "sequence symbolic, satisfy() answers exactly when the condition holds and verify_script_path_vc0 runs the leaf to success on that witness",
    stubs=["tapscript.ssa_verify answers True exactly for the (signature, key) pairs made available; the control block / commitment is C12's subject"],
    functions=["btclib.descriptors.miniscript.Miniscript.satisfy", "btclib.script.engine.tapscript.verify_script_path_vc0", "btclib.descriptors.miniscript.from_script"], min_ok=1, timeout=600)
def tap_satisfaction(ex, expr):
    text, cond = _TAP_EXPRS[expr]
    node = ms.parse(_tap_text(expr), ms.TAPSCRIPT)
    script = node.script()
    back = ms.from_script(script, ms.TAPSCRIPT)
    claims = {"size_is_predicted": len(script) == node.script_size, "reads_back": back == node, "text_reparses": ms.parse(str(node), ms.TAPSCRIPT) == node}
    have = {k: (bool(ex.bool("sig_" + k)) if (k + ")" in text or k + "," in text) else False) for k in "ABC"}
    pre = bool(ex.bool("preimage")) if "sha256" in text else False
    sequence = ex.int("sequence", 0, 0xFFFFFFFF) if "older" in text else 0xFFFFFFFE
    spend = ms.SpendContext(sha256_preimages={bytes.fromhex(_H256): _PRE} if pre else {}, locktime=0, sequence=sequence, version=2)
    sig_of = {k: bytes([0x40 + "ABC".index(k)]) * 64 for k in "ABC"}
    sigs = {_XKEY[k]: sig_of[k] for k in "ABC" if have[k]}
    avail = dict(have)
    avail["pre"] = pre
    avail["older"] = lambda v: bool(sand((sequence & (1 << 31)) == 0, (sequence & (1 << 22)) == (v & (1 << 22)), (v & 0xFFFF) <= (sequence & 0xFFFF)))
    try:
        witness = node.satisfy(sigs, spend)
    except BTClibValueError:
        witness = None
    holds = cond(avail)
    if witness is None:
        claims["refused_only_when_the_condition_fails"] = not holds
        return claims
    claims["condition_holds"] = bool(holds)
    ok_pairs = {(sig_of[k], _XKEY[k]) for k in "ABC" if have[k]}
    ex.stub(_tapscript.ssa_verify, lambda m, pk, s: (bytes(s), bytes(pk)) in ok_pairs)
    tx = Tx(2, 0, [TxIn(OutPoint(b"\x01" * 32, 0, check_validity=False), b"", sequence, Witness(), check_validity=False)], [TxOut(1000, b"\x51", check_validity=False)], check_validity=False)
    prevouts = [TxOut(2000, b"\x51\x20" + _XKEY["A"], check_validity=False)]
    try:
        _tapscript.verify_script_path_vc0(script, list(witness), prevouts, tx, 0, b"", 50 + 66 * len(witness) + len(script), ScriptFlag(0))
        claims["engine_runs_the_leaf_to_success"] = True
    except (ScriptError, BTClibValueError):
        claims["engine_runs_the_leaf_to_success"] = False
    return claims



_KEYS20 = ['0279be667ef9dcbbac55a06295ce870b07029bfcdb2dce28d959f2815b16f81798', '02c6047f9441ed7d6d3045406e95c07cd85c778e4b8cef3ca7abac09b95c709ee5', '02f9308a019258c31049344f85f89d5229b531c845836f99b08601f113bce036f9', '02e493dbf1c10d80f3581e4904930b1404cc6c13900ee0758474fa94abe8c4cd13', '022f8bde4d1a07209355b4a7250a5c5128e88b84bddc619ab7cba8d569b240efe4', '03fff97bd5755eeea420453a14355235d382f6472f8568a18b2f057a1460297556', '025cbdf0646e5db4eaa398f365f2ea7a0e3d419b7e0330e39ce92bddedcac4f9bc', '022f01e5e15cca351daff3843fb70f3c2f0a1bdd05e5af888a67784ef3e10a2a01', '03acd484e2f0c7f65309ad178a9f559abde09796974c57e714c35f110dfc27ccbe', '03a0434d9e47f3c86235477c7b1ae6ae5d3442d49b1943c2b752a68e2a47e247c7', '03774ae7f858a9411e5ef4246b70c65aac5649980be5c17891bbec17895da008cb', '03d01115d548e7561b15c38f004d734633687cf4419620095bc5b0f47070afe85a', '03f28773c2d975288bc7d1d205c3748651b075fbc6610e58cddeeddf8f19405aa8', '03499fdf9e895e719cfd64e67f07d38e3226aa7b63678949e6e49b241a60e823e4', '02d7924d4f7d43ea965a465ae3095ff41131e5946f3c85f79e44adbcf8e27e080e', '03e60fce93b59e9ec53011aabc21c23e97b2a31369b87a5ae9c44ee89e2a6dec0a', '03defdea4cdb677750a420fee807eacf21eb9898ae79b9768766e4faa04a2d4a34', '025601570cb47f238d2b0286db4a990fa0f3ba28d1a319f5e7cf55c2a2444da7cc', '022b4ea0a797a443d293ef5cff444f4979f06acfebd7e86d277475656138385b6c', '024ce119c96e2fa357200b559b2f7dd5a5f02d5290aff74b03f3e471b273211c97']


@ob("C15", "multi_of_many_keys_size_and_readback", quick=[dict(n=n, k=k) for n, k in ((15, 1), (16, 16), (17, 1), (17, 17), (20, 2), (20, 20))],
    bound="multi(k, n keys) for key counts on both sides of 16 (OP_16 is the last one-byte number push; 17..20 are two-byte pushes): predicted script size, read-back, text re-parse",
    functions=["btclib.descriptors.miniscript._leaf_script_size", "btclib.descriptors.miniscript._multi_fragment_script"], min_ok=1, timeout=300)
def big_multi(ex, n, k):
    node = ms.parse("multi(%d,%s)" % (k, ",".join(_KEYS20[:n])))
    script = node.script()
    back = ms.from_script(script)
    return {"size_is_predicted": len(script) == node.script_size, "reads_back": back == node, "read_back_compiles_to_the_same_bytes": back.script() == script, "text_reparses": ms.parse(str(node)) == node}
