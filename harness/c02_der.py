"""C02 — DER codec of ECDSA signatures (dsa.Sig.parse / serialize)."""
from sx.api import ob, sand, sor, snot, ite, implies

from btclib.ecc import dsa
from btclib.exceptions import BTClibValueError

_Q = list(range(0, 13))
_T = list(range(0, 21))


@ob("C02", "der_strict_parse_then_serialize_is_identity",
    quick=[dict(N=n) for n in _Q], thorough=[dict(N=n) for n in _T],
    bound="every byte string of exactly N bytes, N = 0..12 (quick) / 0..20 (thorough); check_validity=False so no curve is involved",
    functions=["btclib.ecc.dsa.Sig.parse", "btclib.ecc.dsa._deserialize_scalar"],
    outside=["DER buffers longer than 20 bytes (incl. real 70-72 byte signatures) in this obligation"],
    min_ok=0, weight=3)
def der_strict(ex, N):
    b = ex.bytes("b", N)
    try:
        sig = dsa.Sig.parse(b, check_validity=False, strict=True)
    except BTClibValueError:
        return ex.refuse("BTClibValueError")
    s = sig.serialize(check_validity=False)
    return {"reserialize_identity": s == b}
