"""C17 — compact targets, work, retargeting against Bitcoin Core's integer arithmetic."""
from datetime import datetime, timezone

from sx.api import ob, sand, sor, snot, ite, implies, iff
from refs import core_pow

from btclib.block import proof_of_work as pow_
from btclib.exceptions import BTClibValueError


def _u32(b):
    return int.from_bytes(b, "big")


@ob("C17", "target_from_bits_is_SetCompact", quick=[dict()],
    bound="all 2^32 compact values (4 symbolic bytes)",
    functions=["btclib.block.proof_of_work.target_from_bits", "btclib.block.proof_of_work.is_negative_bits", "btclib.block.proof_of_work._value_from_bits"])
def target_from_bits(ex):
    bits = ex.bytes("bits", 4)
    n = _u32(bits)
    value, negative, overflow = core_pow.set_compact(n)
    neg = pow_.is_negative_bits(bits)
    try:
        t = pow_.target_from_bits(bits)
    except BTClibValueError:
        return ex.refuse("BTClibValueError", refused_only_on_core_overflow=overflow, sign_flag=iff(neg, negative))
    return {"value_equals_core": int.from_bytes(t, "big") == value, "accepted_only_without_overflow": snot(overflow),
            "sign_flag": iff(neg, negative), "length": len(t) == 32}


@ob("C17", "bits_from_target_is_GetCompact", quick=[dict(L=l) for l in (0, 1, 2, 3, 4, 5, 31, 32)], thorough=[dict(L=l) for l in range(0, 33)],
    bound="every target of L bytes for the listed L (thorough: every L in 0..32, i.e. all 256-bit targets)",
    functions=["btclib.block.proof_of_work.bits_from_target", "btclib.block.proof_of_work.target_from_bits"], weight=3)
def bits_from_target(ex, L):
    target = ex.bytes("t", L)
    v = int.from_bytes(target, "big") if L else 0
    bits = pow_.bits_from_target(target)
    n = _u32(bits)
    back = int.from_bytes(pow_.target_from_bits(bits), "big")
    core = core_pow.get_compact(v)
    # fixed point: re-encoding the decoded value changes nothing
    again = pow_.bits_from_target(pow_.target_from_bits(bits))
    return {"equals_core_GetCompact": n == core, "never_rounds_up": back <= v, "fixed_point": again == bits,
            "never_negative": snot(pow_.is_negative_bits(bits)),
            "loses_at_most_low_bytes": implies(v < (1 << 23), back == v)}


@ob("C17", "bits_roundtrip_on_canonical", quick=[dict()],
    bound="all 2^32 compact values: if bits decode (no overflow) and are canonical (GetCompact(SetCompact(bits)) == bits in Core) then btclib maps them back to themselves",
    functions=["btclib.block.proof_of_work.bits_from_target"])
def bits_roundtrip(ex):
    bits = ex.bytes("bits", 4)
    n = _u32(bits)
    value, negative, overflow = core_pow.set_compact(n)
    ex.assume(snot(overflow))
    ex.assume(snot(negative))
    t = pow_.target_from_bits(bits)
    b2 = pow_.bits_from_target(t)
    canonical = core_pow.get_compact(value) == n
    return {"inverse_on_canonical": implies(canonical, b2 == bits), "agrees_with_core": _u32(b2) == core_pow.get_compact(value)}


@ob("C17", "block_work_is_GetBlockProof", quick=[dict(E=e) for e in (0, 1, 35, 255)],
    bound="exponent byte E in {0,1} with 3 symbolic significand bytes (targets below 2^8), and E in {35,255} (the overflow refusals)",
    outside=["block_work for exponents 2..34: the identity 2^256 // (t+1) == (~t // (t+1)) + 1 needs a 257-bit division by a symbolic divisor, which z3 answers 'unknown' at 120 s"],
    functions=["btclib.block.proof_of_work.block_work"], min_ok=0, query_timeout_ms=120000, timeout=900)
def block_work(ex, E):
    bits = bytes([E]) + ex.bytes("sig", 3)
    n = _u32(bits)
    value, negative, overflow = core_pow.set_compact(n)
    try:
        w = pow_.block_work(bits)
    except BTClibValueError:
        return ex.refuse("BTClibValueError", refused_only_zero_or_overflow=sor(overflow, value == 0))
    return {"equals_core": w == core_pow.block_proof(value), "accepted_only_valid": sand(snot(overflow), value != 0)}


@ob("C17", "next_bits_is_CalculateNextWorkRequired", quick=[dict(E=0x1D), dict(E=0x1B), dict(E=0x04)], thorough=[dict(E=e) for e in (0x03, 0x04, 0x10, 0x17, 0x1B, 0x1C, 0x1D, 0x20)],
    bound="old bits = exponent E with symbolic 23-bit significand (sign clear), first/last block times symbolic over the whole 32-bit range, mainnet pow limit",
    functions=["btclib.block.proof_of_work.next_bits"], query_timeout_ms=180000, timeout=1200, weight=5)
def next_bits(ex, E):
    ex.abstract_wide_arith(128)
    sig = ex.int("sig", 0, 0x7FFFFF)
    bits = bytes([E]) + sig.to_bytes(3, "big")
    t0 = ex.int("t0", 0, 0xFFFFFFFF)
    t1 = ex.int("t1", 0, 0xFFFFFFFF)
    first = datetime.fromtimestamp(t0, timezone.utc)
    last = datetime.fromtimestamp(t1, timezone.utc)
    got = pow_.next_bits(bits, first, last)
    want = core_pow.next_work(_u32(bits), t1 - t0, 0x1D00FFFF)
    return {"equals_core": _u32(got) == want}
