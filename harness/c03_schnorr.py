"""C03 — BIP340 Schnorr on toy curves with p = 3 (mod 4): sign, verify, batch (group law = independent oracle)."""
from sx.api import ob, sand, sor, snot, ite, implies, iff
from harness import toy

from btclib import utils as _utils
from btclib.ecc import ssa, bip340_nonce
from btclib.exceptions import BTClibValueError, BTClibRuntimeError, BTClibTypeError

_STUBS = ["curve.mult, curve._jac_double_mult, curve.multi_mult_var are answered from an independent discrete-log table of the whole curve group (the group law is C01's subject)",
          "sha256 (hence every tagged hash) is an uninterpreted function: nonce and challenge are arbitrary functions of their preimages"]


def _bound_rejection_loops(ex, limit=2):
    """The nonce derivation retries until 0 < k < n; with an arbitrary hash that loop is unbounded: unrolled `limit` times."""
    real = _utils.int_from_bits

    def counted(octets, nlen):
        k = ex.path_state.get("ifb", 0) + 1
        ex.path_state["ifb"] = k
        if k > limit + 1:          # one call belongs to the challenge
            ex.assume(False)
        return ex.unstubbed(real, octets, nlen)
    if not ex.concrete:
        ex.stub(_utils.int_from_bits, counted)


@ob("C03", "sign_then_verify", quick=[dict(ec="ec23_19")], thorough=[dict(ec=c) for c in ("ec23_19", "ec19_23", "ec19_13")],
    bound="private key q in 1..n-1, one symbolic message byte, 32 symbolic bytes of auxiliary randomness; nonce rejection loop unrolled twice; "
          "toy curves with p = 3 mod 4 (quick: ec19_23, ec23_19; thorough: + ec19_13, ec23_31, ec67_19h4, ec67_29h2)",
    stubs=_STUBS, functions=["btclib.ecc.ssa.sign_", "btclib.ecc.bip340_nonce.bip340_nonce_", "btclib.ecc.bip340_nonce._bip340_nonce_", "btclib.ecc.ssa._sign_",
                             "btclib.ecc.ssa._assert_as_valid_", "btclib.ecc.ssa.challenge_", "btclib.ecc.ssa.verify_"],
    outside=["byte-for-byte equality with BIP340's published vectors (needs real SHA-256 and secp256k1)", "messages longer than one byte (the message only ever enters a hash)",
             "batch verification (assert_batch_as_valid_): the obligation 'all members valid => batch accepted' did not terminate in 25 min on the smallest curve"],
    timeout=1500, weight=8, query_timeout_ms=300000)
def sign_then_verify(ex, ec):
    name = ec
    ec = toy.curve(name)
    g = toy.install_group_oracle(ex, name)
    _bound_rejection_loops(ex)
    n = ec.n
    q = ex.int("q", 1, n - 1)
    msg = ex.bytes("m", 1)
    aux = ex.bytes("aux", 32)
    try:
        sig = ssa.sign_(msg, q, aux, ec, verify=False)
    except BTClibRuntimeError:
        return ex.refuse("BTClibRuntimeError")       # zero challenge: BIP340 fails there too
    Qd = g.mul_idx(q, g.g)
    x_Q = g.xs[Qd]
    Rd = g.idx_of_aff(sig.r, ec.y_even_var(sig.r))
    claims = {"range": sand(0 <= sig.r, sig.r < ec.p, 0 <= sig.s, sig.s < n),
              "r_is_x_of_an_even_y_point": Rd >= 0}
    ex.path_state["ifb"] = 0
    ok = ssa.verify_(msg, x_Q, sig, hf=ssa.sha256)
    claims["verifies_under_x_only_key"] = ok == True   # noqa: E712
    # the same signature through the checked signing path must not be refused
    ex.path_state["ifb"] = 0
    try:
        sig2 = ssa.sign_(msg, q, aux, ec, verify=True)
        claims["checked_signing_agrees"] = sand(sig2.r == sig.r, sig2.s == sig.s)
    except BTClibRuntimeError:
        claims["checked_signing_agrees"] = False
    return claims


@ob("C03", "verification_is_the_bip340_predicate", quick=[dict(ec=c) for c in toy.SCHNORR_QUICK], thorough=[dict(ec=c) for c in toy.SCHNORR_ALL],
    bound="challenge c in 0..n-1, r in 0..p-1, s in 0..n-1, x-only key = any x in 0..p-1 (on or off the curve), all symbolic at once",
    stubs=_STUBS[:1], functions=["btclib.ecc.ssa._assert_as_valid_"], timeout=900, weight=4, query_timeout_ms=300000)
def verify_is_bip340(ex, ec):
    name = ec
    ec = toy.curve(name)
    g = toy.install_group_oracle(ex, name)
    n, p = ec.n, ec.p
    c = ex.int("c", 0, n - 1)
    r = ex.int("r", 0, p - 1)
    s = ex.int("s", 0, n - 1)
    x = ex.int("x", 0, p - 1)
    # lift_x with the oracle: the point with this x and even y, if any
    Pd = -1
    for d in range(g.N - 1, 0, -1):
        Pd = ite(sand(x == g.xs[d], g.ys[d] % 2 == 0), d, Pd)
    try:
        y = ec.y_even_var(x)
    except BTClibValueError:
        return ex.refuse("not_on_curve", only_when_x_has_no_point=Pd < 0)
    try:
        ssa._assert_as_valid_(c, (x, y, 1), r, s, ec, frozenset())
        accepted = True
    except (BTClibValueError, BTClibRuntimeError):
        accepted = False
    # BIP340: R = s*G - c*P; fail if infinite, if y(R) is odd, if x(R) != r
    Rd = g.add_idx(g.mul_idx(s, g.g), g.mul_idx(n - c, Pd))
    ref = sand(Rd != 0, g.ys[Rd] % 2 == 0, g.xs[Rd] == r)
    return {"lift_x_agrees": sand(Pd >= 0, g.ys[Pd] == y), "accept_iff_bip340": iff(accepted, ref)}


# NOT REGISTERED: the batch-verification obligation below did not terminate within 25 minutes on the smallest curve (ec19_23, batch of 2), in two
# formulations (hash as UF; challenge as an arbitrary value). It is kept for reference and listed as outside the claim in DESIGN.md and in the evidence.
def batch(ex, ec, size):
    name = ec
    ec = toy.curve(name)
    g = toy.install_group_oracle(ex, name)
    n = ec.n
    cs = [ex.int(f"c{i}", 1, n - 1) for i in range(size)]

    def challenge(msg, x_Q, x_K, ec_, hf):
        k = ex.path_state.get("chal", 0)
        ex.path_state["chal"] = k + 1
        return cs[k % size]
    ex.stub(ssa.challenge_, challenge)
    msgs, Qs, sigs = [], [], []
    for i in range(size):
        q = ex.int(f"q{i}", 1, n - 1)
        k = ex.int(f"k{i}", 1, n - 1)
        Qd = g.mul_idx(q, g.g)
        d = ite(g.ys[Qd] % 2 == 0, q, n - q)
        Kd = g.mul_idx(k, g.g)
        kk = ite(g.ys[Kd] % 2 == 0, k, n - k)
        msgs.append(bytes([i]))
        Qs.append(g.xs[Qd])
        sigs.append(ssa.Sig(g.xs[Kd], (kk + cs[i] * d) % n, ec, check_validity=False))
    try:
        ssa.assert_batch_as_valid_(msgs, Qs, sigs, ssa.sha256)
        ok = True
    except (BTClibValueError, BTClibRuntimeError):
        ok = False
    return {"batch_of_valid_members_accepted": ok}


# ------------------------------------------------------------------ the signature against a transcription of BIP340's verification
import hashlib


def _tagged(tag, data):
    t = hashlib.sha256(tag).digest()
    return hashlib.sha256(t + t + data).digest()


@ob("C03", "signature_satisfies_the_bip340_equation_under_a_transcribed_challenge", quick=[], thorough=[dict(ec="ec23_19", qmax=18), dict(ec="ec19_23", qmax=22)],
    bound="(thorough tier only; the curve with n_size != p_size did not finish in 25 min and is covered by challenge_is_the_bip340_challenge) private key q in 1..n-1, one symbolic message byte, 32 symbolic bytes of auxiliary randomness, nonce rejection loop unrolled twice; the curve of the quick tier has an order one octet "
          "longer than its field (as secp160k1 / secp224k1 have): s*G = R + e*P with e = int(TaggedHash('BIP0340/challenge', bytes(r) || bytes(x_P) || m)) mod n, field elements written on the field's size, "
          "computed by the harness' own transcription (hash = the same uninterpreted function)",
    stubs=_STUBS + ["the reduction of the 256-bit digest to the curve's bit length is the library's documented generalisation (leftmost nlen bits, then mod n)"],
    functions=["btclib.ecc.ssa.sign_", "btclib.ecc.ssa.challenge_"], outside=["the nonce derivation's byte layout (any nonce gives a valid signature)"], timeout=1500, weight=6, query_timeout_ms=300000)
def sig_vs_transcription(ex, ec, qmax):
    name = ec
    ec = toy.curve(name)
    g = toy.install_group_oracle(ex, name)
    _bound_rejection_loops(ex)
    n = ec.n
    q = ex.int("q", 1, qmax)
    msg = ex.bytes("m", 1)
    aux = ex.bytes("aux", 32)
    try:
        sig = ssa.sign_(msg, q, aux, ec, verify=False)
    except BTClibRuntimeError:
        return ex.refuse("BTClibRuntimeError")
    Qd = g.mul_idx(q, g.g)
    x_P = g.xs[Qd]
    Pd = ite(g.ys[Qd] % 2 == 0, Qd, g.neg_idx(Qd))          # lift_x: the even-y point
    even = [-1] * ec.p                                       # dlog of the even-y point with that x-coordinate (-1: no such point)
    for d_, (x_, y_) in enumerate(zip(g.xs, g.ys)):
        if d_ and y_ % 2 == 0:
            even[x_] = d_
    Rd = even[sig.r]
    digest = _tagged(b"BIP0340/challenge", sig.r.to_bytes(ec.p_size, "big") + x_P.to_bytes(ec.p_size, "big") + msg)
    e = (int.from_bytes(digest, "big") >> (256 - ec.nlen)) % n
    return {"r_is_x_of_an_even_y_point": Rd >= 0,
            "bip340_equation_holds": g.mul_idx(sig.s, g.g) == g.add_idx(Rd, g.mul_idx(e, Pd))}



@ob("C03", "challenge_is_the_bip340_challenge", quick=[dict(ec=c, L=l) for c in ("ec251_257", "ec23_19", "ec67_19h4") for l in (0, 1, 33)],
    bound="x-only key and nonce coordinate symbolic over 0..p-1, a message of 0, 1 or 33 symbolic bytes, toy curves including one whose order is one octet longer than its field "
          "(n_size = 2, p_size = 1, as on secp160k1 / secp224k1): challenge_ is int(TaggedHash('BIP0340/challenge', bytes(x_K) || bytes(x_Q) || m)) reduced to the curve's bit length and mod n, "
          "both coordinates written on the field's size, the message as it is; zero is refused",
    stubs=["sha256 is an uninterpreted function shared by the library and the transcription"],
    functions=["btclib.ecc.ssa.challenge_"], min_ok=1, timeout=300)
def challenge_layout(ex, ec, L):
    ec = toy.curve(ec)
    x_Q = ex.int("x_Q", 0, ec.p - 1)
    x_K = ex.int("x_K", 0, ec.p - 1)
    msg = ex.bytes("m", L)
    digest = _tagged(b"BIP0340/challenge", x_K.to_bytes(ec.p_size, "big") + x_Q.to_bytes(ec.p_size, "big") + msg)
    want = (int.from_bytes(digest, "big") >> (256 - ec.nlen)) % ec.n
    try:
        got = ssa.challenge_(msg, x_Q, x_K, ec, ssa.sha256)
    except BTClibRuntimeError:
        return {"refused_only_the_zero_challenge": want == 0}
    return {"challenge_is_bip340s": got == want}


@ob("C03", "signer_object_signs_as_the_free_function_under_its_own_hash", quick=[dict(ec="ec23_19", hf="sha1")], thorough=[dict(ec=c, hf=h) for c in ("ec23_19", "ec19_23") for h in ("sha1", "sha512", "sha256")],
    bound="Signer(q, ec, hf).sign_(m, aux) for a hash function other than the default (sha1, sha512), q in 1..n-1, one symbolic message byte, aux of the hash's size symbolic, nonce rejection loop "
          "unrolled twice: the octets are those of the free function sign_(m, q, aux, ec, hf)",
    stubs=_STUBS, functions=["btclib.ecc.ssa.Signer.sign_", "btclib.ecc.ssa.sign_"], timeout=1500, weight=6, query_timeout_ms=300000, min_ok=1)
def signer_vs_free(ex, ec, hf):
    name = ec
    ec = toy.curve(name)
    toy.install_group_oracle(ex, name)
    _bound_rejection_loops(ex, limit=4)
    h = getattr(hashlib, hf)
    q = ex.int("q", 1, ec.n - 1)
    msg = ex.bytes("m", 1)
    aux = ex.bytes("aux", h().digest_size)
    try:
        want = ssa.sign_(msg, q, aux, ec, h, verify=False).serialize()
    except BTClibRuntimeError:
        return ex.refuse("BTClibRuntimeError")
    ex.path_state["ifb"] = 0
    try:
        got = ssa.Signer(q, ec, h).sign_(msg, aux, verify=False)
    except BTClibRuntimeError:
        return {"signer_refuses_where_the_function_signs": False}
    return {"same_octets": sand(len(got) == len(want), got == want) if len(got) == len(want) else False}


@ob("C03", "verify_is_total_on_integer_keys_of_any_size", quick=[dict(ec="ec23_19")], thorough=[dict(ec=c) for c in ("ec23_19", "ec19_23", "ec251_257")],
    bound="the x-only key handed in as an integer symbolic over -2..2^(8*p_size)+5 (below zero, in the field, between p and the octet boundary, beyond what p_size octets hold), r in 0..p-1, s in 0..n-1, "
          "one message octet symbolic: verify_ answers a boolean on every path -- never an OverflowError or another foreign exception -- and answers False for every key outside 0..p-1",
    stubs=_STUBS, functions=["btclib.ecc.ssa.verify_", "btclib.ecc.ssa.assert_as_valid_"], timeout=900, weight=3, min_ok=1, query_timeout_ms=300000)
def verify_total(ex, ec):
    name = ec
    ec = toy.curve(name)
    toy.install_group_oracle(ex, name)
    _bound_rejection_loops(ex)
    n, p = ec.n, ec.p
    x = ex.int("x", -2, 2 ** (8 * ec.p_size) + 5)
    r = ex.int("r", 0, p - 1)
    s = ex.int("s", 0, n - 1)
    msg = ex.bytes("m", 1)
    sig = ssa.Sig(r, s, ec, check_validity=False)
    ok = ssa.verify_(msg, x, sig, ssa.sha256)
    return {"answers_a_boolean": sor(ok == True, ok == False), "a_key_outside_the_field_never_verifies": sor(sand(0 <= x, x < p), ok == False)}   # noqa: E712
