"""C07 — BIP32 derivation against the BIP's equations (HMAC, hash160 uninterpreted; secp256k1 point arithmetic abstract)."""
from sx.api import ob, sand, sor, snot, ite, implies, iff

from btclib import hashes as _hashes
from btclib.bip32 import bip32
from btclib.bip32.bip32 import BIP32KeyData
from btclib.curves.curve import secp256k1
from btclib.exceptions import BTClibValueError, BTClibTypeError
from btclib import to_pub_key as _to_pub_key
import hmac as _hmac

N = secp256k1.n
XPRV = bytes.fromhex("0488ade4")
XPUB = bytes.fromhex("0488b21e")
H = 0x80000000

_STUBS = ["hmac-sha512, sha256 and ripemd160 are uninterpreted functions (the left half I_L ranges over every 256-bit value)",
          "serP(k*G) is an injective uninterpreted function of k (33 bytes, first byte 2 or 3); public-key tweak addition is an uninterpreted function of (key, tweak) "
          "that may arbitrarily report the point at infinity; extended-key EC validity checks are switched off"]


def _install(ex):
    pub = ex.uf("serP", 33, injective=True)
    add = ex.uf("pub_tweak_add", 33, injective=False)
    is_inf = ex.uf("tweak_add_is_infinity", 1, injective=False)

    def bytes_from_prv_key_int(k, *a, **kw):
        out = pub(k.to_bytes(32, "big"))
        if not ex.concrete:
            ex.assume(sor(out[0] == 2, out[0] == 3))
        return out

    class Chain:
        def __init__(self, key):
            self.key = key

        def tweak_add(self, tweak, compressed=True):
            inf = ex.fresh_var("infinity", 0, 1)
            # whether K + t*G is the point at infinity is a function of (K, t): the same pair meets the same verdict wherever it is asked
            verdict = is_inf(self.key + tweak)[0]
            if not ex.concrete:
                ex.assume(sor(sand(inf == 1, verdict == 1), sand(inf == 0, verdict != 1)))
            else:
                inf = 1 if verdict == 1 else 0
            if inf == 1:
                raise BTClibValueError("the sum is the point at infinity")
            out = add(self.key + tweak)
            if not ex.concrete:
                ex.assume(sor(out[0] == 2, out[0] == 3))
            self.key = out
            return out
    ex.stub(bip32.bytes_from_prv_key_int, bytes_from_prv_key_int)
    ex.stub(bip32._pub_key_tweak_chain, lambda key: Chain(key))
    ex.stub(bip32._assert_valid_key, lambda version, key: None)
    ex.path_state["is_inf"] = is_inf
    return pub, add


def _hmac512(key, data):
    return _hmac.new(key, data, "sha512").digest()


@ob("C07", "private_child_is_the_bip32_equation", quick=[dict()], thorough=[dict()],
    bound="parent private key k in 1..n-1 (256 bits), chain code 32 bytes, parent depth 0..254 and fingerprint, child index over all 32 bits: all symbolic; I_L and I_R are arbitrary (uninterpreted HMAC)",
    stubs=_STUBS, functions=["btclib.bip32.bip32._derive", "btclib.bip32.bip32.__prv_key_derivation", "btclib.bip32.bip32.__prv_key_path_derivation"], timeout=900, min_ok=1)
def private_child(ex):
    pub, _ = _install(ex)
    k = ex.int("k", 1, N - 1)
    cc = ex.bytes("cc", 32)
    depth = ex.int("depth", 0, 254)
    fp = ex.bytes("fp", 4)
    pidx = ex.int("pidx", 0, 0xFFFFFFFF)
    i = ex.int("i", 0, 0xFFFFFFFF)
    parent = BIP32KeyData(XPRV, depth, fp, pidx, cc, b"\x00" + k.to_bytes(32, "big"), check_validity=False)
    # BIP32 CKDpriv, transcribed
    P = pub(k.to_bytes(32, "big"))
    data = ite(i >= H, b"\x00" + k.to_bytes(32, "big") + i.to_bytes(4, "big"), P + i.to_bytes(4, "big"))
    I = _hmac512(cc, data)
    IL = int.from_bytes(I[:32], "big")
    child = (IL + k) % N
    invalid = sor(IL >= N, child == 0)
    try:
        c = bip32._derive(parent, [i], None)
    except BTClibValueError:
        return ex.refuse("BTClibValueError", refused_only_for_invalid_child=invalid)
    return {"accepted_only_valid_child": snot(invalid),
            "child_key": c.key == b"\x00" + child.to_bytes(32, "big"),
            "chain_code_is_IR": c.chain_code == I[32:],
            "depth_plus_one": c.depth == depth + 1,
            "index_recorded": c.index == i,
            "fingerprint_is_hash160_of_parent_pubkey": c.parent_fingerprint == _hashes.hash160(P)[:4],
            "version_kept": c.version == XPRV}


@ob("C07", "public_child_and_hardened_refusal", quick=[dict()], thorough=[dict()],
    bound="parent compressed public key (33 bytes), chain code, child index over all 32 bits: symbolic; derivation through _derive and through pub_key_derivation_tweaks",
    stubs=_STUBS, functions=["btclib.bip32.bip32._derive", "btclib.bip32.bip32._pub_key_offset", "btclib.bip32.bip32.pub_key_derivation_tweaks",
                             "btclib.bip32.bip32.__pub_key_derivation"], timeout=900, min_ok=1)
def public_child(ex):
    pub, add = _install(ex)
    K = ex.bytes("K", 33)
    ex.assume(sor(K[0] == 2, K[0] == 3))      # a compressed public key
    cc = ex.bytes("cc", 32)
    depth = ex.int("depth", 0, 254)
    i = ex.int("i", 0, 0xFFFFFFFF)
    parent = BIP32KeyData(XPUB, depth, b"\x01\x02\x03\x04", 7, cc, K, check_validity=False)
    I = _hmac512(cc, K + i.to_bytes(4, "big"))
    IL = I[:32]
    claims = {}
    tweaks_ok = False
    try:
        tweaks = bip32.pub_key_derivation_tweaks(K, cc, [i])
        claims["tweaks_only_for_unhardened"] = i < H
        claims["tweak_is_IL"] = sand(len(tweaks) == 1, tweaks[0] == IL)
        claims["tweak_below_n"] = int.from_bytes(IL, "big") < N
        claims["tweaks_answered_only_for_a_finite_child"] = ex.inputs_value("infinity!1") == 0
        tweaks_ok = True
    except BTClibValueError:
        claims["tweaks_refused_only_hardened_or_invalid"] = sor(i >= H, int.from_bytes(IL, "big") >= N, ex.inputs_value("infinity!1") == 1)
    try:
        c = bip32._derive(parent, [i], None)
    except BTClibValueError:
        claims["derive_refused_only_hardened_or_invalid"] = sor(i >= H, int.from_bytes(IL, "big") >= N, ex.inputs_value("infinity!2") == 1, ex.inputs_value("infinity!1") == 1)
        claims["derive_refuses_only_what_the_tweaks_refuse"] = not tweaks_ok
        return claims
    claims.update({"derive_answers_only_what_the_tweaks_answer": tweaks_ok, "derive_only_unhardened": i < H, "left_half_below_n": int.from_bytes(IL, "big") < N,
                   "child_key_is_tweak_add": c.key == add(K + IL), "chain_code_is_IR": c.chain_code == I[32:],
                   "depth_plus_one": c.depth == depth + 1, "index_recorded": c.index == i,
                   "fingerprint_is_hash160_of_parent_pubkey": c.parent_fingerprint == _hashes.hash160(K)[:4]})
    return claims


@ob("C07", "path_equals_step_by_step", quick=[dict(n=2, prv=1), dict(n=2, prv=0)], thorough=[dict(n=2, prv=1), dict(n=2, prv=0), dict(n=3, prv=0)],
    bound="paths of n = 2 (thorough: 3 for the public derivation; three private steps were solver-unknown under load) symbolic 32-bit indexes from a symbolic extended private / public key: one call equals the step-by-step derivation in every field "
          "(key, chain code, depth, index, parent fingerprint), as terms over the uninterpreted HMAC / hash160 / point functions",
    stubs=_STUBS, functions=["btclib.bip32.bip32._derive", "btclib.bip32.bip32.__prv_key_path_derivation", "btclib.bip32.bip32.__pub_key_path_derivation"],
    timeout=900, min_ok=1, weight=3)
def path_vs_steps(ex, n, prv):
    _install(ex)
    cc = ex.bytes("cc", 32)
    idx = [ex.int(f"i{j}", 0, 0xFFFFFFFF) for j in range(n)]
    if prv:
        k = ex.int("k", 1, N - 1)
        root = BIP32KeyData(XPRV, 0, b"\x00" * 4, 0, cc, b"\x00" + k.to_bytes(32, "big"), check_validity=False)
    else:
        K = ex.bytes("K", 33)
        ex.assume(sor(K[0] == 2, K[0] == 3))
        root = BIP32KeyData(XPUB, 0, b"\x00" * 4, 0, cc, K, check_validity=False)
    # the tweak-add stub draws a fresh "infinity" bit per call: pin them all to "finite" so both computations see the same points
    try:
        whole = bip32._derive(root, idx, None)
        step = root
        for j in idx:
            step = bip32._derive(step, [j], None)
    except BTClibValueError:
        return ex.refuse("BTClibValueError")
    return {"same_key": whole.key == step.key, "same_chain_code": whole.chain_code == step.chain_code, "same_depth": whole.depth == step.depth,
            "same_index": whole.index == step.index, "same_parent_fingerprint": whole.parent_fingerprint == step.parent_fingerprint,
            "same_version": whole.version == step.version}


# ------------------------------------------------------------------ BIP85 application paths
from btclib import bip85 as _bip85

# BIP85 "Language Table" and "Words Table" (transcribed from the BIP)
_BIP85_LANG = {"en": 0, "ja": 1, "ko": 2, "es": 3, "zh": 4, "zh_tw": 5, "fr": 6, "it": 7, "cs": 8, "pt": 9}
_BIP85_ENT = {12: 16, 15: 20, 18: 24, 21: 28, 24: 32}
_H = 0x80000000


@ob("C07", "bip85_mnemonic_application_path_and_truncation", quick=[dict(lang=l, words=w) for l in _BIP85_LANG for w in (12, 24)] + [dict(lang="en", words=w) for w in (15, 18, 21)],
    thorough=[dict(lang=l, words=w) for l in _BIP85_LANG for w in _BIP85_ENT],
    bound="every language of BIP85's table x sentence length, child index symbolic over 0..7 (case split): the entropy is asked at m/83696968'/39'/language'/words'/index' with the BIP's language code, "
          "and the sentence is BIP39's over the first 16/20/24/28/32 bytes of it (the 64 entropy bytes symbolic)",
    stubs=["bip85._entropy_from_der_path records the path and answers 64 symbolic bytes; mnemonic_from_entropy records the entropy it is given"],
    functions=["btclib.bip85.mnemonic_from_root_key"], min_ok=1)
def bip85_mnemonic_path(ex, lang, words):
    from btclib.bip32.der_path import indexes_from_der_path
    index = ex.concretize(ex.int("index", 0, 7))
    ent = ex.bytes("ent", 64)
    seen = {}

    def fake_entropy(root, der_path):
        seen["path"] = der_path
        return ent

    def fake_mnemonic(entropy, lang_):
        seen["entropy"], seen["lang"] = entropy, lang_
        return "stub sentence"
    ex.stub(_bip85._entropy_from_der_path, fake_entropy)
    ex.stub(_bip85.mnemonic_from_entropy, fake_mnemonic)
    root = BIP32KeyData(XPRV, 0, b"\x00" * 4, 0, b"\x22" * 32, b"\x00" + b"\x01" * 32, check_validity=False)
    _bip85.mnemonic_from_root_key(root, words, lang, index)
    want = [83696968 + _H, 39 + _H, _BIP85_LANG[lang] + _H, words + _H, index + _H]
    got = list(indexes_from_der_path(seen["path"]))
    n = _BIP85_ENT[words]
    return {"path_is_the_bips": got == want, "entropy_truncated_to_the_words_table": sand(len(seen["entropy"]) == n, seen["entropy"] == ent[:n]), "language_handed_on": seen["lang"] == lang}


# ------------------------------------------------------------------ the algebraic laws: neutering commutes with unhardened derivation; the known parent-key recovery
_HOMO = ["the group homomorphism enters as two assumed instances, on exactly the terms the two derivations build: serP((k + t) mod n) = tweak_add(serP(k), t) and "
         "'the sum is infinity' <=> (k + t) mod n = 0 (true statements about secp256k1; a library that built any other term is not helped by them)"]


@ob("C07", "neutering_commutes_with_unhardened_derivation", quick=[dict(n=1), dict(n=2)], thorough=[dict(n=1), dict(n=2)],
    bound="extended private key (k in 1..n-1, chain code, depth, parent fingerprint and index symbolic), paths of n = 1, 2 symbolic unhardened indexes (three steps: solver-unknown at a branch after 460 s): N(CKDpriv(xprv, i..)) and CKDpub(N(xprv), i..) agree "
          "in key, chain code, depth, index, parent fingerprint and version, and one refuses exactly when the other does",
    stubs=_STUBS + _HOMO, functions=["btclib.bip32.bip32._derive", "btclib.bip32.bip32._xpub_from_xprv", "btclib.bip32.bip32.__prv_key_derivation", "btclib.bip32.bip32.__pub_key_derivation"],
    timeout=900, min_ok=1, weight=3)
def neuter_commutes(ex, n):
    pub, add = _install(ex)
    is_inf = ex.path_state["is_inf"]
    k = ex.int("k", 1, N - 1)
    cc = ex.bytes("cc", 32)
    depth = ex.int("depth", 0, 255 - n)
    fp = ex.bytes("fp", 4)
    pidx = ex.int("pidx", 0, 0xFFFFFFFF)
    idx = [ex.int(f"i{j}", 0, H - 1) for j in range(n)]
    xprv = BIP32KeyData(XPRV, depth, fp, pidx, cc, b"\x00" + k.to_bytes(32, "big"), check_validity=False)
    # the homomorphism, instantiated along the path (reference walk with the BIP's equations)
    kj, ccj = k, cc
    for i in idx:
        P = pub(kj.to_bytes(32, "big"))
        I = _hmac512(ccj, P + i.to_bytes(4, "big"))
        IL = int.from_bytes(I[:32], "big")
        child = (IL + kj) % N
        if not ex.concrete:
            ex.assume(iff(is_inf(P + I[:32])[0] == 1, child == 0))
            ex.assume(implies(child != 0, pub(child.to_bytes(32, "big")) == add(P + I[:32])))
        kj, ccj = child, I[32:]
    a = b = None
    try:
        a = bip32._xpub_from_xprv(bip32._derive(xprv, idx, None))
    except BTClibValueError:
        pass
    try:
        b = bip32._derive(bip32._xpub_from_xprv(xprv), idx, None)
    except BTClibValueError:
        pass
    if a is None or b is None:
        return ex.refuse("BTClibValueError", both_refuse=(a is None and b is None))
    return {"same_key": a.key == b.key, "same_chain_code": a.chain_code == b.chain_code, "same_depth": a.depth == b.depth, "same_index": a.index == b.index,
            "same_parent_fingerprint": a.parent_fingerprint == b.parent_fingerprint, "same_version": sand(a.version == b.version, a.version == XPUB),
            "public_key_prefix": sor(a.key[0] == 2, a.key[0] == 3)}


@ob("C07", "parent_key_recovered_from_xpub_and_child_is_the_true_parent", quick=[dict()], thorough=[dict()],
    bound="parent private key k in 1..n-1, chain code, depth 1..254, fingerprint, index and the child index over all 32 bits symbolic: for the child the library derives, crack_prv_key_var(N(parent), child) "
          "serializes exactly the parent's extended private key; a hardened child is refused",
    stubs=_STUBS + ["base58.encode records the 78-octet payload it is handed (the codec is C06's subject)"],
    functions=["btclib.bip32.bip32.crack_prv_key_var", "btclib.bip32.bip32._derive", "btclib.bip32.bip32._xpub_from_xprv"], timeout=600, min_ok=1)
def crack_parent(ex):
    from btclib import base58 as _b58
    pub, _ = _install(ex)
    seen = []

    def fake_encode(v, in_size=None):
        seen.append(v)
        return b"@xkey@"
    ex.stub(_b58.encode, fake_encode)
    k = ex.int("k", 1, N - 1)
    cc = ex.bytes("cc", 32)
    depth = ex.int("depth", 1, 254)       # a root key (depth 0) has no index or fingerprint of its own: BIP32KeyData's validity rule, which crack_prv_key_var enforces
    fp = ex.bytes("fp", 4)
    pidx = ex.int("pidx", 0, 0xFFFFFFFF)
    i = ex.int("i", 0, 0xFFFFFFFF)
    parent = BIP32KeyData(XPRV, depth, fp, pidx, cc, b"\x00" + k.to_bytes(32, "big"), check_validity=False)
    try:
        child = bip32._derive(parent, [i], None)
    except BTClibValueError:
        return ex.refuse("invalid_child")
    xpub = bip32._xpub_from_xprv(parent)
    try:
        out = bip32.crack_prv_key_var(xpub, child)
    except BTClibValueError as e:
        return ex.refuse("BTClibValueError: " + str(e)[:30], refused_only_a_hardened_child=i >= H)
    want = parent.serialize(check_validity=False)
    return {"answered_only_for_an_unhardened_child": i < H, "one_key_written": len(seen) == 1,
            "recovered_parent_is_the_true_parent": sand(len(seen[0]) == len(want), seen[0] == want)}
