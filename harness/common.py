"""Shared helpers for harnesses (work in symbolic and in concrete mode)."""
import io

from sx import api
from sx.api import sand, sor, snot, ite, implies

from btclib.exceptions import BTClibException, BTClibValueError, BTClibTypeError, BTClibRuntimeError

LIB_ERRORS = (BTClibException,)


def mkstream(ex, b):
    """BytesIO over b (a SymBytesIO in symbolic mode)."""
    if ex.concrete:
        return io.BytesIO(b)
    from sx.seq import SymBytesIO
    return SymBytesIO(b)


def resolve(path):
    """'btclib.tx.tx:Tx.parse' -> object."""
    import importlib
    mod, _, attr = path.partition(":")
    o = importlib.import_module(mod)
    for a in attr.split("."):
        o = getattr(o, a)
    return o


def octets_roundtrip(ex, N, parse, serialize, errors=LIB_ERRORS, name="b"):
    """Every N-byte string: accepted => serializes back to exactly those bytes."""
    b = ex.bytes(name, N)
    try:
        obj = parse(b)
    except errors as e:
        return ex.refuse(type(e).__name__)
    out = serialize(obj)
    return {"reserialize_identity": sand(len(out) == N, out == b)}


def stream_roundtrip(ex, N, parse, serialize, errors=LIB_ERRORS, name="b", size=None):
    """Every N-byte stream: accepted => exactly the serialization was consumed, nothing beyond was read."""
    b = ex.bytes(name, N)
    s = mkstream(ex, b)
    try:
        obj = parse(s)
    except errors as e:
        return ex.refuse(type(e).__name__)
    pos = s.tell()
    out = serialize(obj)
    claims = {"consumed_equals_serialization": sand(len(out) == pos, out == b[:pos])}
    if size is not None:
        claims["reported_size"] = size(obj) == pos
    return claims
