"""C17 — BIP158 basic block filters: construction, Golomb-Rice coding and matching, with SipHash an arbitrary function."""
import datetime

from sx.api import ob, sand, sor, snot, ite, implies, iff

from btclib.block import block_filter as bf
from btclib.block.block import Block
from btclib.block.block_header import BlockHeader
from btclib.exceptions import BTClibValueError
from btclib.script.witness import Witness
from btclib.tx.out_point import OutPoint
from btclib.tx.tx import Tx
from btclib.tx.tx_in import TxIn
from btclib.tx.tx_out import TxOut

_P, _M = 19, 784931
_SCRIPTS = [b"\x51", b"\x00\x14" + b"\x11" * 20, b"\x76\xa9\x14" + b"\x22" * 20 + b"\x88\xac", b"\x52"]


def _block(out_scripts):
    header = BlockHeader(1, b"\x00" * 32, b"\x33" * 32, datetime.datetime(2020, 1, 1, tzinfo=datetime.timezone.utc), b"\x20\x7f\xff\xff", 1, check_validity=False)
    coinbase = Tx(1, 0, [TxIn(OutPoint(b"\x00" * 32, 0xFFFFFFFF, check_validity=False), b"\x51\x51", 0xFFFFFFFF, Witness(), check_validity=False)],
                  [TxOut(50, b"\x6a\x01\x07", check_validity=False)], check_validity=False)      # an OP_RETURN output: never an element
    spend = Tx(2, 0, [TxIn(OutPoint(b"\x07" * 32, 0, check_validity=False), b"", 0xFFFFFFFF, Witness(), check_validity=False)],
               [TxOut(10 + i, s, check_validity=False) for i, s in enumerate(out_scripts)], check_validity=False)
    return Block(header, [coinbase, spend], check_validity=False)


def _ref_gcs(values):
    """BIP158 golomb-coded set of the sorted values: (bits as a list of 0/1)."""
    bits = []
    last = 0
    for v in values:
        delta = v - last
        last = v
        q = delta >> _P
        for _ in range(q):          # q is decided by the path (the caller forks on it)
            bits.append(1)
        bits.append(0)
        for shift in range(_P - 1, -1, -1):
            bits.append((delta >> shift) & 1)
    while len(bits) % 8:
        bits.append(0)
    out = []
    for i in range(0, len(bits), 8):
        byte = 0
        for b in bits[i:i + 8]:
            byte = (byte << 1) | b
        out.append(byte)
    return out


@ob("C17", "bip158_filter_is_the_reference_construction_and_matches_its_elements", quick=[dict(outs=1, dup=1), dict(outs=2, dup=1), dict(outs=1, dup=0)], thorough=[dict(outs=o, dup=d) for o in (1, 2) for d in (0, 1)],
    bound="a block with a coinbase (OP_RETURN output) and one transaction with 1..2 distinct output scripts plus one spent script (optionally a repeat of an output script): SipHash is an arbitrary "
          "64-bit function of the element (so two elements may collide after hash_to_range); the filter holds N = number of distinct scripts values, its bytes are BIP158's Golomb-Rice coding "
          "(P = 19, M = 784931) of the sorted list with repeats, it decodes to that list, and every script it was built from matches",
    stubs=["hashes.siphash is an uninterpreted 64-bit function of the element (the key is the block's)"],
    functions=["btclib.block.block_filter.BasicBlockFilter.from_block", "btclib.block.block_filter._golomb_encode", "btclib.block.block_filter._golomb_decode",
               "btclib.block.block_filter.BasicBlockFilter.match_any"], outside=["more than 3 elements (quick: 2)", "SipHash itself"], min_ok=1, timeout=900, max_decisions=20000)
def bip158(ex, outs, dup):
    sip = ex.uf("siphash", 8)
    cache = {}

    def fake_siphash(k0, k1, data):
        data = bytes(data)
        if data not in cache:
            cache[data] = int.from_bytes(sip(data), "little")
        return cache[data]
    ex.stub(bf.siphash, fake_siphash)
    out_scripts = _SCRIPTS[:outs]
    spent = [out_scripts[0] if dup else _SCRIPTS[3]]
    elements = sorted(set(out_scripts) | set(spent))
    n = len(elements)
    F = n * _M
    try:
        f = bf.BasicBlockFilter.from_block(_block(out_scripts), spent)
    except BTClibValueError:
        return {"an_honest_block_has_a_filter": False}
    want_values = sorted((fake_siphash(0, 0, e) * F) >> 64 for e in elements)
    want = _ref_gcs(want_values)
    enc = bytes(f.encoded_set)
    claims = {"element_count_is_the_number_of_distinct_scripts": f.element_count == n,
              "encoding_is_bip158": sand(len(enc) == len(want), *[a == b for a, b in zip(enc, want)]) if len(enc) == len(want) else False}
    try:
        got = f.element_hashes
        claims["decodes_to_the_sorted_list"] = sand(len(got) == n, *[a == b for a, b in zip(got, want_values)]) if len(got) == n else False
        claims["every_element_matches"] = sand(*[f.match(e) == True for e in elements])   # noqa: E712
        claims["op_return_script_never_matches_by_construction"] = True
    except BTClibValueError:
        claims["own_filter_decodes"] = False
    return claims


@ob("C17", "bip158_match_any_is_membership_of_any_query", quick=[dict(outs=1, q=3), dict(outs=1, q=2)], thorough=[dict(outs=1, q=q) for q in (1, 2, 3)] + [dict(outs=2, q=2)],
    bound="a filter of 2..3 elements (as above) asked about q scripts at once -- the first one is in the block, the others are not -- with SipHash an arbitrary function, so the queries' range values "
          "fall below, between, on and above the filter's in every order: match_any answers True exactly when some query's value is one of the filter's values (never a false negative: the block's own script matches), "
          "and the empty query list is answered False",
    stubs=["hashes.siphash is an uninterpreted 64-bit function of the element"],
    functions=["btclib.block.block_filter.BasicBlockFilter.match_any", "btclib.block.block_filter._golomb_decode"], min_ok=1, timeout=900, max_decisions=20000)
def bip158_match_any(ex, outs, q):
    sip = ex.uf("siphash", 8)
    cache = {}

    def fake_siphash(k0, k1, data):
        data = bytes(data)
        if data not in cache:
            cache[data] = int.from_bytes(sip(data), "little")
        return cache[data]
    ex.stub(bf.siphash, fake_siphash)
    out_scripts = _SCRIPTS[:outs]
    spent = [_SCRIPTS[3]]
    elements = sorted(set(out_scripts) | set(spent))
    F = len(elements) * _M
    f = bf.BasicBlockFilter.from_block(_block(out_scripts), spent)
    values = [(fake_siphash(0, 0, e) * F) >> 64 for e in elements]
    absent = [b"\x53", b"\x00\x14" + b"\x44" * 20]
    queries = ([out_scripts[0]] + absent)[:q]
    queries = queries[1:] + queries[:1]            # the present one last in the caller's order (the walk sorts by value anyway)
    targets = [(fake_siphash(0, 0, e) * F) >> 64 for e in queries]
    want = sor(*[t == v for t in targets for v in values])
    got = f.match_any(queries)
    return {"match_any_is_membership_of_any_query": iff(got == True, want), "own_script_is_never_missed": got == True,   # noqa: E712
            "empty_query_is_false": f.match_any([]) == False}   # noqa: E712


# ------------------------------------------------------------------ BIP141 witness commitment
from btclib import hashes as _hashes


def _wblock(cb_stack, commit, other_wit, commitment_bytes):
    header = BlockHeader(1, b"\x00" * 32, b"\x33" * 32, datetime.datetime(2020, 1, 1, tzinfo=datetime.timezone.utc), b"\x20\x7f\xff\xff", 1, check_validity=False)
    outs = [TxOut(50, b"\x51", check_validity=False)]
    if commit:
        outs.append(TxOut(0, b"\x6a\x24\xaa\x21\xa9\xed" + commitment_bytes, check_validity=False))
    coinbase = Tx(1, 0, [TxIn(OutPoint(b"\x00" * 32, 0xFFFFFFFF, check_validity=False), b"\x51\x51", 0xFFFFFFFF, Witness(cb_stack, check_validity=False), check_validity=False)],
                  outs, check_validity=False)
    spend = Tx(2, 0, [TxIn(OutPoint(b"\x07" * 32, 0, check_validity=False), b"", 0xFFFFFFFF, Witness([b"\x01\x02"] if other_wit else [], check_validity=False), check_validity=False)],
               [TxOut(10, b"\x52", check_validity=False)], check_validity=False)
    return Block(header, [coinbase, spend], check_validity=False), spend


_CB_STACKS = {"none": 0, "nonce32": 1, "nonce31": 1, "two": 2}


@ob("C17", "witness_commitment_rule_is_bip141", quick=[dict(cb=c, commit=k, other=o) for c in _CB_STACKS for k in (0, 1) for o in (0, 1)],
    bound="a two-transaction block: coinbase witness absent / one 32-byte element / one 31-byte element / two elements (bytes symbolic), commitment output absent or present with 32 symbolic bytes, "
          "the other transaction with or without a witness: when any transaction carries a witness the block is accepted exactly when the commitment output exists, the coinbase witness is one 32-byte "
          "nonce and the commitment is hash256(witness root || nonce) with the coinbase leaf zeroed; a block without any witness is accepted",
    functions=["btclib.block.block.Block.assert_valid_witness_commitment"], min_ok=1, timeout=300)
def witness_commitment(ex, cb, commit, other):
    if cb == "none":
        stack = []
    elif cb == "nonce32":
        stack = [ex.bytes("nonce", 32)]
    elif cb == "nonce31":
        stack = [ex.bytes("nonce", 31)]
    else:
        stack = [ex.bytes("nonce", 32), b"\x01"]
    cbytes = ex.bytes("commitment", 32)
    block, spend = _wblock(stack, commit, other, cbytes)
    try:
        block.assert_valid_witness_commitment()
        ok = True
    except BTClibValueError:
        ok = False
    any_witness = bool(stack) or bool(other)
    if not any_witness:
        return {"block_without_witnesses_is_accepted": ok}
    if not commit or cb != "nonce32":
        return {"refused_without_commitment_or_with_a_bad_nonce": not ok}
    leaf = _hashes.hash256(spend.serialize(include_witness=True, check_validity=False))
    root = _hashes.hash256(b"\x00" * 32 + leaf)
    want = _hashes.hash256(root + stack[0])
    return {"accepted_iff_commitment_matches": iff(ok, cbytes == want)}


# ------------------------------------------------------------------ BIP152: reconstruction from a compact block and a pool, short ids an arbitrary function
from btclib.p2p import compact_blocks as _cb


def _ctx_tx(k):
    return Tx(2, k, [TxIn(OutPoint(bytes([0x60 + k]) * 32, 0, check_validity=False), b"", 0xFFFFFFFF, Witness(), check_validity=False)], [TxOut(10 + k, b"\x51", check_validity=False)], check_validity=False)


@ob("C17", "compact_block_reconstruction_places_only_the_right_transactions", quick=[dict(npool=n, prefilled_mid=m) for n in (1, 2, 3) for m in (0, 1)], thorough=[dict(npool=n, prefilled_mid=m) for n in (1, 2, 3, 4) for m in (0, 1)],
    bound="a block of a coinbase and three transactions announced with the coinbase (and optionally the second transaction) prefilled; the short id of every transaction -- the block's own and "
          "a decoy's -- is a symbolic value over 0..3, so unique ids, colliding announced ids and pool collisions all occur; the pool holds the first npool of (tx1, decoy, tx2, tx3): "
          "colliding announced ids are refused; otherwise a position whose transaction is in the pool is filled with exactly that transaction unless another pool member shares its id, in which case it is left "
          "missing; a position whose transaction is not in the pool is missing or holds a pool member of the same short id (the merkle root check is what catches that)",
    stubs=["compact_blocks._short_id is an arbitrary function of the transaction with values 0..3"],
    functions=["btclib.p2p.compact_blocks.reconstruct"], min_ok=1, timeout=600)
def compact_reconstruct(ex, npool, prefilled_mid):
    txs = [_ctx_tx(k) for k in range(1, 4)]
    decoy = _ctx_tx(7)
    everyone = txs + [decoy]
    ids = {bytes(t.hash): ex.int(f"sid{k}", 0, 3) for k, t in enumerate(everyone)}
    ex.stub(_cb._short_id, lambda key, wtxid: ids[bytes(wtxid)])
    block, _ = _wblock([], 0, 0, b"\x00" * 32)
    coinbase = block.transactions[0]
    prefilled = [_cb.PrefilledTransaction(0, coinbase)]
    announced = [0, 1, 2]
    if prefilled_mid:
        prefilled.append(_cb.PrefilledTransaction(2, txs[1]))
        announced = [0, 2]
    short_ids = [ids[bytes(txs[k].hash)] for k in announced]
    cmpct = _cb.CmpctBlock(block.header, 5, short_ids, prefilled, check_validity=False)
    pool = [txs[0], decoy, txs[1], txs[2]][:npool]
    unique = sand(*[short_ids[a] != short_ids[b] for a in range(len(short_ids)) for b in range(a + 1, len(short_ids))]) if len(short_ids) > 1 else True
    try:
        pb = _cb.reconstruct(cmpct, pool)
    except BTClibValueError:
        return {"refused_only_colliding_announced_ids": snot(unique)}
    got = list(pb.transactions)
    claims = {"announced_ids_were_unique": unique, "shape": len(got) == 4, "coinbase_in_place": got[0] is coinbase}
    for pos, k in zip([1 + a for a in announced], announced):
        t = got[pos]
        mine = ids[bytes(txs[k].hash)]
        others = [p for p in pool if p is not txs[k]]
        clash = sor(*[ids[bytes(o.hash)] == mine for o in others]) if others else False
        in_pool = any(p is txs[k] for p in pool)
        if t is None:
            claims[f"position_{pos}_missing_only_if_absent_or_collided"] = sor(not in_pool, clash)
        elif in_pool:
            claims[f"position_{pos}_holds_the_blocks_transaction"] = sand(t is txs[k], snot(clash))
        else:
            # the block's transaction is not in the pool: BIP152 cannot tell a pool member with the same short id from it (the merkle root will)
            claims[f"position_{pos}_filled_only_by_a_same_id_transaction"] = ids[bytes(t.hash)] == mine
    if prefilled_mid:
        claims["prefilled_in_place"] = got[2] is txs[1]
    return claims
