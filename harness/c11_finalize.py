"""C11 — finalizing and extracting never change the unsigned transaction (signature verification abstract)."""
from sx.api import ob, sand, sor, snot, ite, implies, iff

from btclib import hashes as _hashes
from btclib.exceptions import BTClibValueError
from btclib.psbt import psbt as _psbt
from btclib.psbt.psbt import Psbt, finalize, extract_tx
from btclib.tx.tx_out import TxOut
from harness.c10_closure import _PUB, _DER

from btclib.psbt.psbt_in import PsbtIn
from btclib.psbt.psbt_out import PsbtOut

_LOCKS = {"none": (0, 0), "height": (1, 0), "time": (0, 1), "both": (1, 1)}


@ob("C11", "finalize_and_extract_keep_the_unsigned_transaction", quick=[dict(lock=l, fb=f) for l in _LOCKS for f in (0, 1)],
    bound="a signed version 2 p2wpkh PSBT (one input; amount, sequence, version symbolic) whose input requires no lock time, a height, a time or both (values symbolic) with and without a fallback "
          "lock time: finalize and finalize().to_v0() keep version, lock time, sequence, outpoint and outputs of the unsigned transaction, extract_tx returns that transaction with the spend filled in, "
          "and the PSBT handed in is left as it was",
    stubs=["dsa.verify_ answers True (C02 covers it)", "sha256 / ripemd160 injective uninterpreted functions"],
    functions=["btclib.psbt.psbt.finalize", "btclib.psbt.psbt.extract_tx", "btclib.psbt.psbt._clear_finalized"], min_ok=1, timeout=600)
def finalize_keeps_tx(ex, lock, fb):
    from sx import instr
    if not ex.concrete:
        instr.HASH_INJECTIVE = True
    ex.prefer_int()
    has_h, has_t = _LOCKS[lock]
    h = ex.int("height", 1, 499_999_999) if has_h else None
    t = ex.int("time", 500_000_000, 0xFFFFFFFF) if has_t else None
    fallback = ex.int("fallback", 0, 0xFFFFFFFF) if fb else None
    seq = ex.int("seq", 0, 0xFFFFFFFE)
    amt = ex.int("amt", 1000, 2_100_000_000_000_000 // 4)
    h160 = _hashes.hash160(_PUB)
    pin = PsbtIn(previous_tx_id=b"\x31" * 32, output_index=1, sequence=seq, witness_utxo=TxOut(amt, b"\x00\x14" + h160, check_validity=False), required_height_lock_time=h,
                 required_time_lock_time=t, partial_sigs={_PUB: _DER + b"\x01"}, check_validity=False)
    pout = PsbtOut(amount=900, script_pub_key=b"\x00\x14" + b"\x42" * 20, check_validity=False)
    p = Psbt(ex.int("version", 2, 0xFFFFFFFF), [pin], [pout], 2, {}, fallback_lock_time=fallback, check_validity=False)
    ex.stub(_psbt.dsa.verify_, lambda *a, **k: True)
    before = p.tx
    raw_before = p.serialize(check_validity=False)
    try:
        f = finalize(p)
        ftx = f.tx
        v0tx = f.to_v0().tx
        final = extract_tx(f)
    except BTClibValueError:
        return {"a_signed_psbt_finalizes": False}

    def same(a, b):
        return sand(a.version == b.version, a.lock_time == b.lock_time, len(a.vin) == len(b.vin), len(a.vout) == len(b.vout),
                    *[sand(x.prev_out.tx_id == y.prev_out.tx_id, x.prev_out.vout == y.prev_out.vout, x.sequence == y.sequence) for x, y in zip(a.vin, b.vin)],
                    *[sand(x.value == y.value, x.script_pub_key.script == y.script_pub_key.script) for x, y in zip(a.vout, b.vout)])
    return {"finalize_keeps_the_transaction": same(ftx, before), "finalize_then_to_v0_keeps_it": same(v0tx, before), "extracted_is_that_transaction": same(final, before),
            "argument_unchanged": p.serialize(check_validity=False) == raw_before}


# ------------------------------------------------------------------ the streamed view agrees with the parsed object
from btclib.psbt.psbt_view import PsbtView


@ob("C11", "psbt_view_agrees_with_the_parsed_psbt", quick=[dict(scenario=s, version=v) for s in ("disjoint_sigs", "updater_fields", "optional_ints") for v in (0, 2)],
    bound="the one-input PSBTs of the combine scenarios (version 0 and 2, value bytes symbolic), serialized and opened as a PsbtView: the view's globals, input(0), output(0), tx, lock_time and "
          "(where the input carries its utxo) prevouts equal those of the parsed Psbt",
    functions=["btclib.psbt.psbt_view.PsbtView.__init__", "btclib.psbt.psbt_view.PsbtView.input", "btclib.psbt.psbt_view.PsbtView.tx"], min_ok=1, timeout=600)
def view_agrees(ex, scenario, version):
    from harness.c11_combine import _operand
    p = _operand(ex, scenario, 0 if scenario == "optional_ints" else 1, version)
    raw = p.serialize(check_validity=False)
    try:
        view = PsbtView(raw)
        vin0 = view.input(0, check_validity=False)
        vout0 = view.output(0, check_validity=False)
        vtx = view.tx
        vlock = view.lock_time
    except BTClibValueError:
        return {"own_serialization_opens_as_a_view": False}
    ptx = p.tx
    claims = {"globals": sand(view.version == p.version, view.tx_version == p.tx_version, view.input_count == 1, view.output_count == 1, view.unknown == p.unknown,
                              view.hd_key_paths == p.hd_key_paths, (view.fallback_lock_time == p.fallback_lock_time) if p.fallback_lock_time is not None else view.fallback_lock_time is None),
              "input_map": vin0 == p.inputs[0], "output_map": vout0 == p.outputs[0],
              "transaction": sand(vtx.version == ptx.version, vtx.lock_time == ptx.lock_time, vtx.vin[0].prev_out.tx_id == ptx.vin[0].prev_out.tx_id, vtx.vin[0].sequence == ptx.vin[0].sequence,
                                  vtx.vout[0].value == ptx.vout[0].value, vtx.vout[0].script_pub_key.script == ptx.vout[0].script_pub_key.script),
              "lock_time": vlock == p.lock_time}
    if scenario == "updater_fields":
        from btclib.psbt.psbt import prevouts as _prevouts
        a, b = view.prevouts, _prevouts(p)
        claims["prevouts"] = sand(len(a) == len(b), *[sand(x.value == y.value, x.script_pub_key.script == y.script_pub_key.script) for x, y in zip(a, b)])
    return claims
