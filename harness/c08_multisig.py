"""C08 — OP_CHECKSIG / OP_CHECKMULTISIG plumbing through verify_script against the transcription of Core's interpreter,
with the ECDSA verification replaced by an arbitrary (symbolic) verdict per (signature, key) pair."""
import itertools

from sx.api import ob, sand, sor, snot, ite, implies, iff
from refs import core_script as core

from btclib.exceptions import BTClibValueError, ScriptError
from btclib.script.engine import script as _escript
from btclib.script.engine.flags import ScriptFlag
from btclib.script.engine.script import verify_script
from harness.c08_engine import _tx

# distinct canonical low-s DER signatures (r = k + 1, s = 1) + SIGHASH_ALL, and distinct compressed keys
_SIGS = [bytes.fromhex("30060201%02x020101" % (k + 1)) + b"\x01" for k in range(3)]
_KEYS = [b"\x02" + bytes([0x10 + k]) * 32 for k in range(3)]
_BADKEY = b"\x05" + b"\x33" * 32            # not a public key encoding under STRICTENC
_HYBRID = b"\x06" + b"\x44" * 64            # hybrid: refused under STRICTENC, a (never verifying) key otherwise

_FLAGSETS = {"none": [], "nullfail": ["NULLFAIL"], "nulldummy": ["NULLDUMMY"], "strict": ["STRICTENC"], "all": ["NULLFAIL", "NULLDUMMY", "STRICTENC", "DERSIG"]}


def _params(tier):
    out = []
    for n in range(0, 4):
        for m in range(0, n + 1):
            empties_all = list(itertools.product((0, 1), repeat=m))
            for fs in _FLAGSETS:
                for empties in empties_all:
                    for bad in [None] + list(range(n)):
                        if tier == "quick":
                            if sum(empties) > 1 or (bad is not None and fs not in ("strict", "none")) or (n == 3 and fs in ("nulldummy",)):
                                continue
                        for op in ("ae", "af"):
                            if tier == "quick" and op == "af" and (bad is not None or sum(empties)):
                                continue
                            out.append(dict(n=n, m=m, flagset=fs, empties=list(empties), bad=bad, op=op))
    # malformed counts
    for fs in ("none", "all"):
        for shape in ("m_gt_n", "neg_n", "n_21", "short_stack", "no_dummy"):
            out.append(dict(n=2, m=1, flagset=fs, empties=[0], bad=None, op="ae", shape=shape))
    return out


class _Sigs:
    def __init__(self, fl, table):
        self.nullfail = "NULLFAIL" in fl
        self.nulldummy = "NULLDUMMY" in fl
        self.strict = "STRICTENC" in fl
        self.table = table

    def sig_encoding_ok(self, sig):     # every non-empty signature here is canonical DER, low s, SIGHASH_ALL
        return True

    def key_encoding_ok(self, key):
        if not self.strict:
            return True
        return (len(key) == 33 and key[0] in (2, 3)) or (len(key) == 65 and key[0] == 4)

    def check(self, sig, key):
        if len(sig) == 0:
            return False
        return self.table.get((bytes(sig[:-1]), bytes(key)), False)


@ob("C08", "checksig_checkmultisig_plumbing_vs_core", quick=_params("quick"), thorough=_params("thorough"),
    bound="<dummy> <m signatures> m <n keys> n OP_CHECKMULTISIG(VERIFY), 0 <= m <= n <= 3, each signature a distinct canonical DER signature or empty, one key optionally a non-key / hybrid encoding, "
          "the dummy one symbolic byte or empty, flag sets over NULLFAIL / NULLDUMMY / STRICTENC / DERSIG; the ECDSA verdict of every (signature, key) pair an independent symbolic boolean; "
          "also the malformed shapes (m > n, negative n, n = 21, missing elements): same verdict and same final stack as Core's loop",
    stubs=["script.dsa_verify answers the symbolic verdict of the (signature, key) pair"],
    functions=["btclib.script.engine.script._run_ops", "btclib.script.engine.script.op_checksig", "btclib.script.engine.script.assert_nullfail"],
    outside=["the ECDSA arithmetic and the sighash (C09)", "more than 3 keys", "FindAndDelete of signatures inside multisig scripts"], min_ok=1, timeout=300)
def multisig(ex, n, m, flagset, empties, bad, op, shape=None):
    fl = _FLAGSETS[flagset]
    flags = ScriptFlag(0)
    for f in fl:
        flags |= ScriptFlag[f]
    keys = list(_KEYS[:n])
    if bad is not None:
        keys[bad] = _BADKEY if bad % 2 == 0 else _HYBRID
    sigs = [b"" if e else _SIGS[k] for k, e in enumerate(empties)]
    verdict = {(k, j): ex.bool(f"ok_{k}_{j}") for k in range(m) for j in range(n)}
    table = {(sigs[k][:-1], keys[j]): sand(verdict[(k, j)], keys[j][0] in (2, 3)) for k in range(m) for j in range(n) if sigs[k]}
    dummy = ex.bytes("dummy", 1) if ex.bool("dummy_present") else b""

    def num(v):
        return core.scriptnum_serialize(v)
    if shape == "m_gt_n":
        stack = [dummy, sigs[0], sigs[0], sigs[0], num(3)] + keys + [num(2)]
    elif shape == "neg_n":
        stack = [dummy, sigs[0], num(1)] + keys + [num(-1)]
    elif shape == "n_21":
        stack = [dummy, sigs[0], num(1)] + keys + [num(21)]
    elif shape == "short_stack":
        stack = [num(1)] + keys + [num(3)]
    elif shape == "no_dummy":
        stack = [sigs[0], num(1)] + keys + [num(2)]
    else:
        stack = [dummy] + sigs + [num(m)] + keys + [num(n)]

    def fake_verify(msg_hash, pub_key, sig):
        return bool(table.get((bytes(sig), bytes(pub_key)), False))
    ex.stub(_escript.dsa_verify, fake_verify)
    program = bytes.fromhex(op)
    lib_stack = list(stack)
    try:
        verify_script(program, lib_stack, 1000, _tx(), 0, flags, False)
        lib_ok = True
    except (ScriptError, BTClibValueError):
        lib_ok = False
    ref_stack = list(stack)
    try:
        core.eval_script(ref_stack, program, sigs=_Sigs(fl, table), hashes={})
        ref_ok = True
    except core.ScriptErr:
        ref_ok = False
    claims = {"same_verdict_as_core": lib_ok == ref_ok}
    if lib_ok and ref_ok:
        same = len(lib_stack) == len(ref_stack)
        if same:
            for a, b in zip(lib_stack, ref_stack):
                same = sand(same, a == b) if len(a) == len(b) else False
        claims["same_final_stack_as_core"] = same
    return claims


# ------------------------------------------------------------------ legacy sigop count: CScript::GetSigOpCount(false)
from btclib.script.sig_ops import sig_op_count


def _core_sigops(script):
    n = 0
    pc = 0
    while pc < len(script):
        try:
            op, data, pc = core.get_op(script, pc)
        except core.ScriptErr:
            break
        n = n + ite(sor(op == core.OP_CHECKSIG, op == core.OP_CHECKSIGVERIFY), 1, 0) + ite(sor(op == core.OP_CHECKMULTISIG, op == core.OP_CHECKMULTISIGVERIFY), 20, 0)
    return n


@ob("C08", "legacy_sigop_count_is_core_GetSigOpCount", quick=[dict(N=n, tail="") for n in (0, 1, 2, 3)] + [dict(N=2, tail=t) for t in ("ac", "4cffac", "ae51af")],
    thorough=[dict(N=n, tail=t) for n in (0, 1, 2, 3, 4) for t in ("", "ac", "4cffac", "ae51af")],
    bound="every script of N = 0..3 (thorough 4) symbolic bytes followed by a fixed tail (nothing; CHECKSIG; a PUSHDATA1 running past the end that hides a CHECKSIG; CHECKMULTISIG 1 CHECKMULTISIGVERIFY): "
          "sig_op_count equals Core's GetSigOpCount(false) -- 1 per CHECKSIG(VERIFY), 20 per CHECKMULTISIG(VERIFY), nothing from where GetOp fails on",
    functions=["btclib.script.sig_ops.sig_op_count", "btclib.script.script.op_code_spans"], min_ok=1, timeout=600)
def sigops(ex, N, tail):
    script = ex.bytes("s", N) + bytes.fromhex(tail)
    got = sig_op_count(script)
    return {"same_count_as_core": got == _core_sigops(script)}


# ------------------------------------------------------------------ P2WPKH (bare and P2SH-wrapped) through verify_input against Core's VerifyScript
from btclib import hashes as _hashes
from btclib.script.engine import verify_input
from btclib.script.witness import Witness
from btclib.tx.out_point import OutPoint
from btclib.tx.tx import Tx
from btclib.tx.tx_in import TxIn
from btclib.tx.tx_out import TxOut
from harness.c08_engine import _hashes_table

_WIT_SHAPES = ("sig_key", "sig_only", "sig_key_extra", "empty", "empty_sig_key")
_P2WPKH_FLAGS = {"consensus": ["P2SH", "WITNESS"], "standard": ["P2SH", "WITNESS", "STRICTENC", "DERSIG", "LOW_S", "NULLFAIL", "CLEANSTACK", "WITNESS_PUBKEYTYPE", "MINIMALDATA"],
                 "no_witness": ["P2SH"]}


@ob("C08", "p2wpkh_spend_rules_vs_core", quick=[dict(wrapped=w, shape=s, flags=f) for w in (0, 1) for s in _WIT_SHAPES for f in _P2WPKH_FLAGS],
    bound="a P2WPKH output, bare and P2SH-wrapped, spent with a witness of two items (signature, key), one, three, none, or an empty signature with the key; the key's first byte symbolic (so its "
          "hash160 may or may not be the program's; 02/03/04/other prefixes), the ECDSA verdict a symbolic boolean, three flag sets: verify_input gives Core's VerifyScript verdict",
    stubs=["script.dsa_verify answers the symbolic verdict", "hash160 of a key with a symbolic byte is an uninterpreted function (equal to the program's only for the original key)"],
    functions=["btclib.script.engine.verify_input", "btclib.script.engine._verify_witness_v0", "btclib.script.engine.script.op_checksig"], min_ok=1, timeout=300)
def p2wpkh_rules(ex, wrapped, shape, flags):
    fl = _P2WPKH_FLAGS[flags]
    sflags = ScriptFlag(0)
    for f in fl:
        sflags |= ScriptFlag[f]
    key0 = _KEYS[0]
    program = _hashes.hash160(key0)
    k0 = ex.int("key_prefix", 0, 255)
    key = bytes([k0]) + key0[1:]
    sig = _SIGS[0]
    verdict = ex.bool("ecdsa_ok")
    wstack = {"sig_key": [sig, key], "sig_only": [sig], "sig_key_extra": [b"\x01", sig, key], "empty": [], "empty_sig_key": [b"", key]}[shape]
    redeem = b"\x00\x14" + program
    spk = (b"\xa9\x14" + _hashes.hash160(redeem) + b"\x87") if wrapped else redeem
    script_sig = core.push_of(redeem) if wrapped else b""
    ex.stub(_escript.dsa_verify, lambda m, pk, s: bool(sand(verdict, sor(pk[0] == 2, pk[0] == 3))))

    class S:
        nullfail = "NULLFAIL" in fl
        nulldummy = False

        def sig_encoding_ok(self, s):
            return True

        def key_encoding_ok(self, k):
            compressed = len(k) == 33 and bool(sor(k[0] == 2, k[0] == 3))
            if "STRICTENC" in fl and not (compressed or (len(k) == 65 and bool(k[0] == 4))):
                return False
            if "WITNESS_PUBKEYTYPE" in fl and not compressed:
                return False
            return True

        def check(self, s, k):
            if len(s) == 0:
                return False
            return bool(sand(verdict, sor(k[0] == 2, k[0] == 3)))
    tx = Tx(2, 0, [TxIn(OutPoint(b"\x01" * 32, 0, check_validity=False), script_sig, 0xFFFFFFFF, Witness(wstack, check_validity=False), check_validity=False)],
            [TxOut(1000, b"\x51", check_validity=False)], check_validity=False)
    try:
        verify_input([TxOut(2000, spk, check_validity=False)], tx, 0, sflags)
        lib_ok = True
    except (ScriptError, BTClibValueError):
        lib_ok = False
    try:
        core.verify_script(script_sig, spk, wstack, set(fl), _hashes.sha256, hashes=_hashes_table(), sigs=S())
        ref_ok = True
    except core.ScriptErr:
        ref_ok = False
    return {"same_verdict_as_core_VerifyScript": lib_ok == ref_ok}
