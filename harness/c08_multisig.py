"""C08 — OP_CHECKSIG / OP_CHECKMULTISIG plumbing through verify_script against the transcription of Core's interpreter,
with the ECDSA verification replaced by an arbitrary (symbolic) verdict per (signature, key) pair."""
import itertools

from sx.api import ob, sand, sor, snot, ite, implies, iff
from refs import core_script as core

from btclib.exceptions import BTClibValueError, ScriptError
from btclib.script.engine import script as _escript
from btclib.script.engine.flags import ScriptFlag
from btclib.script.engine.script import verify_script
from harness.c08_engine import _tx

# distinct canonical low-s DER signatures (r = k + 1, s = 1) + SIGHASH_ALL, and distinct compressed keys
_SIGS = [bytes.fromhex("30060201%02x020101" % (k + 1)) + b"\x01" for k in range(3)]
_KEYS = [b"\x02" + bytes([0x10 + k]) * 32 for k in range(3)]
_BADKEY = b"\x05" + b"\x33" * 32            # not a public key encoding under STRICTENC
_HYBRID = b"\x06" + b"\x44" * 64            # hybrid: refused under STRICTENC, a (never verifying) key otherwise

_FLAGSETS = {"none": [], "nullfail": ["NULLFAIL"], "nulldummy": ["NULLDUMMY"], "strict": ["STRICTENC"], "all": ["NULLFAIL", "NULLDUMMY", "STRICTENC", "DERSIG"]}


def _params(tier):
    out = []
    for n in range(0, 4):
        for m in range(0, n + 1):
            empties_all = list(itertools.product((0, 1), repeat=m))
            for fs in _FLAGSETS:
                for empties in empties_all:
                    for bad in [None] + list(range(n)):
                        if tier == "quick":
                            if sum(empties) > 1 or (bad is not None and fs not in ("strict", "none")) or (n == 3 and fs in ("nulldummy",)):
                                continue
                        for op in ("ae", "af"):
                            if tier == "quick" and op == "af" and (bad is not None or sum(empties)):
                                continue
                            out.append(dict(n=n, m=m, flagset=fs, empties=list(empties), bad=bad, op=op))
    # malformed counts
    for fs in ("none", "all"):
        for shape in ("m_gt_n", "neg_n", "n_21", "short_stack", "no_dummy"):
            out.append(dict(n=2, m=1, flagset=fs, empties=[0], bad=None, op="ae", shape=shape))
    return out


class _Sigs:
    def __init__(self, fl, table):
        self.nullfail = "NULLFAIL" in fl
        self.nulldummy = "NULLDUMMY" in fl
        self.strict = "STRICTENC" in fl
        self.table = table

    def sig_encoding_ok(self, sig):     # every non-empty signature here is canonical DER, low s, SIGHASH_ALL
        return True

    def key_encoding_ok(self, key):
        if not self.strict:
            return True
        return (len(key) == 33 and key[0] in (2, 3)) or (len(key) == 65 and key[0] == 4)

    def check(self, sig, key):
        if len(sig) == 0:
            return False
        return self.table.get((bytes(sig[:-1]), bytes(key)), False)


@ob("C08", "checksig_checkmultisig_plumbing_vs_core", quick=_params("quick"), thorough=_params("thorough"),
    bound="<dummy> <m signatures> m <n keys> n OP_CHECKMULTISIG(VERIFY), 0 <= m <= n <= 3, each signature a distinct canonical DER signature or empty, one key optionally a non-key / hybrid encoding, "
          "the dummy one symbolic byte or empty, flag sets over NULLFAIL / NULLDUMMY / STRICTENC / DERSIG; the ECDSA verdict of every (signature, key) pair an independent symbolic boolean; "
          "also the malformed shapes (m > n, negative n, n = 21, missing elements): same verdict and same final stack as Core's loop",
    stubs=["script.dsa_verify answers the symbolic verdict of the (signature, key) pair"],
    functions=["btclib.script.engine.script._run_ops", "btclib.script.engine.script.op_checksig", "btclib.script.engine.script.assert_nullfail"],
    outside=["the ECDSA arithmetic and the sighash (C09)", "more than 3 keys", "FindAndDelete of signatures inside multisig scripts"], min_ok=1, timeout=300)
def multisig(ex, n, m, flagset, empties, bad, op, shape=None):
    fl = _FLAGSETS[flagset]
    flags = ScriptFlag(0)
    for f in fl:
        flags |= ScriptFlag[f]
    keys = list(_KEYS[:n])
    if bad is not None:
        keys[bad] = _BADKEY if bad % 2 == 0 else _HYBRID
    sigs = [b"" if e else _SIGS[k] for k, e in enumerate(empties)]
    verdict = {(k, j): ex.bool(f"ok_{k}_{j}") for k in range(m) for j in range(n)}
    table = {(sigs[k][:-1], keys[j]): sand(verdict[(k, j)], keys[j][0] in (2, 3)) for k in range(m) for j in range(n) if sigs[k]}
    dummy = ex.bytes("dummy", 1) if ex.bool("dummy_present") else b""

    def num(v):
        return core.scriptnum_serialize(v)
    if shape == "m_gt_n":
        stack = [dummy, sigs[0], sigs[0], sigs[0], num(3)] + keys + [num(2)]
    elif shape == "neg_n":
        stack = [dummy, sigs[0], num(1)] + keys + [num(-1)]
    elif shape == "n_21":
        stack = [dummy, sigs[0], num(1)] + keys + [num(21)]
    elif shape == "short_stack":
        stack = [num(1)] + keys + [num(3)]
    elif shape == "no_dummy":
        stack = [sigs[0], num(1)] + keys + [num(2)]
    else:
        stack = [dummy] + sigs + [num(m)] + keys + [num(n)]

    def fake_verify(msg_hash, pub_key, sig):
        return bool(table.get((bytes(sig), bytes(pub_key)), False))
    ex.stub(_escript.dsa_verify, fake_verify)
    program = bytes.fromhex(op)
    lib_stack = list(stack)
    try:
        verify_script(program, lib_stack, 1000, _tx(), 0, flags, False)
        lib_ok = True
    except (ScriptError, BTClibValueError):
        lib_ok = False
    ref_stack = list(stack)
    try:
        core.eval_script(ref_stack, program, sigs=_Sigs(fl, table), hashes={})
        ref_ok = True
    except core.ScriptErr:
        ref_ok = False
    claims = {"same_verdict_as_core": lib_ok == ref_ok}
    if lib_ok and ref_ok:
        same = len(lib_stack) == len(ref_stack)
        if same:
            for a, b in zip(lib_stack, ref_stack):
                same = sand(same, a == b) if len(a) == len(b) else False
        claims["same_final_stack_as_core"] = same
    return claims


# ------------------------------------------------------------------ legacy sigop count: CScript::GetSigOpCount(false)
from btclib.script.sig_ops import sig_op_count


def _core_sigops(script):
    n = 0
    pc = 0
    while pc < len(script):
        try:
            op, data, pc = core.get_op(script, pc)
        except core.ScriptErr:
            break
        n = n + ite(sor(op == core.OP_CHECKSIG, op == core.OP_CHECKSIGVERIFY), 1, 0) + ite(sor(op == core.OP_CHECKMULTISIG, op == core.OP_CHECKMULTISIGVERIFY), 20, 0)
    return n


@ob("C08", "legacy_sigop_count_is_core_GetSigOpCount", quick=[dict(N=n, tail="") for n in (0, 1, 2, 3)] + [dict(N=2, tail=t) for t in ("ac", "4cffac", "ae51af")],
    thorough=[dict(N=n, tail=t) for n in (0, 1, 2, 3, 4) for t in ("", "ac", "4cffac", "ae51af")],
    bound="every script of N = 0..3 (thorough 4) symbolic bytes followed by a fixed tail (nothing; CHECKSIG; a PUSHDATA1 running past the end that hides a CHECKSIG; CHECKMULTISIG 1 CHECKMULTISIGVERIFY): "
          "sig_op_count equals Core's GetSigOpCount(false) -- 1 per CHECKSIG(VERIFY), 20 per CHECKMULTISIG(VERIFY), nothing from where GetOp fails on",
    functions=["btclib.script.sig_ops.sig_op_count", "btclib.script.script.op_code_spans"], min_ok=1, timeout=600)
def sigops(ex, N, tail):
    script = ex.bytes("s", N) + bytes.fromhex(tail)
    got = sig_op_count(script)
    return {"same_count_as_core": got == _core_sigops(script)}
