"""Toy curves shared by the EC harnesses: the suite's eight low-cardinality curves, built with the
library's own constructor, plus an independent oracle (affine arithmetic with CPython's pow)."""
from btclib.curves.curve import Curve
from btclib.alias import INF

PARAMS = {
    "ec13_11": (13, 7, 6, (1, 1), 11, 1),
    "ec13_19": (13, 0, 2, (1, 9), 19, 1),
    "ec17_13": (17, 6, 8, (0, 12), 13, 2),
    "ec17_23": (17, 3, 5, (1, 14), 23, 1),
    "ec19_13": (19, 0, 2, (4, 16), 13, 2),
    "ec19_23": (19, 2, 9, (0, 16), 23, 1),
    "ec23_19": (23, 9, 7, (5, 4), 19, 1),
    "ec23_31": (23, 5, 1, (0, 1), 31, 1),
    # true cofactors (found by search; the constructor's SEC 1 cofactor formula needs p > 64 to agree with h = 4)
    "ec67_19h4": (67, 1, 5, (5, 1), 19, 4),
    "ec67_29h2": (67, 1, 7, (2, 33), 29, 2),
    # the order needs one octet more than the field (n_size = 2, p_size = 1), as on secp160k1/r1/r2 and secp224k1; p = 3 mod 4
    "ec251_257": (251, 1, 16, (0, 4), 257, 1),
    # orders of exactly eight bits (found by search): r >= 128 occurs, rarely -- the situation ECDSA's low-R grinding exists for
    "ec131_137": (131, 1, 9, (0, 3), 137, 1),
    "ec149_139": (149, 2, 8, (2, 13), 139, 1),
}
_SPECIAL = ("ec251_257", "ec131_137", "ec149_139")
_CACHE = {}


def curve(name):
    if name not in _CACHE:
        p, a, b, G, n, h = PARAMS[name]
        _CACHE[name] = Curve(p, a, b, G, n, h, False)
    return _CACHE[name]


def _aff_add(P, Q, p, a):
    if P is None:
        return Q
    if Q is None:
        return P
    if P[0] == Q[0]:
        if (P[1] + Q[1]) % p == 0:
            return None
        lam = (3 * P[0] * P[0] + a) * pow(2 * P[1], -1, p) % p
    else:
        lam = (Q[1] - P[1]) * pow(Q[0] - P[0], -1, p) % p
    x = (lam * lam - P[0] - Q[0]) % p
    return x, (lam * (P[0] - x) - P[1]) % p


_TABLES = {}


def multiples(name):
    """[0*G, 1*G, ..., (n-1)*G] as (x, y) pairs, None = infinity. Independent of the library's arithmetic."""
    if name not in _TABLES:
        p, a, b, G, n, h = PARAMS[name]
        out, P = [None], None
        for _ in range(n - 1):
            P = _aff_add(P, G, p, a)
            out.append(P)
        assert _aff_add(P, G, p, a) is None, "n*G must be infinity"
        _TABLES[name] = out
    return _TABLES[name]


def all_points(name):
    """Every affine point of the curve (not only the subgroup of G)."""
    p, a, b, G, n, h = PARAMS[name]
    return [(x, y) for x in range(p) for y in range(p) if (y * y - (x * x * x + a * x + b)) % p == 0]


def lib_point(P):
    return INF if P is None else P


QUICK = ["ec13_11", "ec17_13", "ec23_19", "ec67_19h4"]
ALL = [c for c in PARAMS if c not in _SPECIAL]     # the 257-point curve is only used where the order's octet length matters (C03 challenge layout)
SCHNORR_QUICK = ["ec19_23", "ec23_19"]          # p % 4 == 3
SCHNORR_ALL = ["ec19_13", "ec19_23", "ec23_19", "ec23_31", "ec67_19h4", "ec67_29h2"]


# ---------------------------------------------------------------- whole-group oracle
class Group:
    """Independent, fully concrete model of the curve's whole group (subgroup of G and, for cofactor > 1, the rest).

    The group is cyclic for every curve used here (checked), so a point is represented by its discrete logarithm d
    with respect to a fixed generator W of the WHOLE group: point(d) = d*W, infinity is d = 0, addition is
    (d1 + d2) mod N and scalar multiplication (m * d) mod N. Only the conversions between coordinates and d are
    tables (built with affine arithmetic and CPython's pow, independent of the library). Harnesses use it
    (a) as the reference C01 compares the library's arithmetic with and (b) as a stand-in for the point arithmetic
    inside protocol code, so that scalars and points can stay symbolic without forking.
    """

    def __init__(self, name):
        p, a, b, G, n, h = PARAMS[name]
        self.name, self.p, self.a, self.b, self.n, self.h = name, p, a, b, n, h
        pts = all_points(name)
        self.N = N = len(pts) + 1
        assert N % n == 0, (name, N, n, h)   # the declared cofactor of some suite curves is nominal
        W = None
        for P in pts:                          # a generator of the whole group
            R, k = P, 1
            while R is not None:
                R = _aff_add(R, P, p, a)
                k += 1
            if k == N:
                W = P
                break
        assert W is not None, f"{name}: group is not cyclic"
        self.points = [None]                   # points[d] = d*W
        R = None
        for _ in range(N - 1):
            R = _aff_add(R, W, p, a)
            self.points.append(R)
        assert _aff_add(R, W, p, a) is None
        self.index = {P: d for d, P in enumerate(self.points)}
        self.g = self.index[G]                 # dlog of the generator of the prime-order subgroup
        self.xs = [0] + [P[0] for P in self.points[1:]]
        self.ys = [0] + [P[1] for P in self.points[1:]]
        assert (self.g * n) % N == 0

    # -- the following work on concrete ints and on the engine's symbolic ints alike
    def idx_of_aff(self, x, y):
        """dlog of the affine point (x, y); -1 if it is not a point of the curve."""
        from sx.api import ite, sand
        if type(x) is int and type(y) is int:
            return self.index.get((x, y), -1)
        r = -1
        for i in range(self.N - 1, 0, -1):
            r = ite(sand(x == self.xs[i], y == self.ys[i]), i, r)
        return r

    def idx_of_jac(self, PJ):
        from sx.api import ite
        X, Y, Z = PJ
        if type(Z) is int and type(X) is int and type(Y) is int:
            if Z == 0:
                return 0
            zi = pow(Z, -1, self.p)
            return self.index[(X * zi * zi % self.p, Y * zi * zi * zi % self.p)]
        if type(Z) is int and Z == 1:
            return self.idx_of_aff(X, Y)
        # symbolic Z: the library only builds Z = 1 (lifted keys) or Z = 0 (infinity) before handing points on
        return ite(Z == 0, 0, self.idx_of_aff(X, Y))

    def mul_idx(self, m, d):
        return (m * d) % self.N

    def add_idx(self, d1, d2):
        return (d1 + d2) % self.N

    def neg_idx(self, d):
        return (-d) % self.N

    def jac(self, d):
        from sx.api import ite
        return (self.xs[d], self.ys[d], ite(d == 0, 0, 1))

    def aff(self, d):
        """Library-style affine point for dlog d (infinity is alias.INF)."""
        from sx.api import ite
        return (ite(d == 0, INF[0], self.xs[d]), ite(d == 0, INF[1], self.ys[d]))


_GROUPS = {}


def group(name):
    if name not in _GROUPS:
        _GROUPS[name] = Group(name)
    return _GROUPS[name]


def install_group_oracle(ex, name):
    """Replace the library's point arithmetic entry points by the oracle (so protocol code runs without forking)."""
    from btclib.curves import curve as curve_mod
    g = group(name)
    ec = curve(name)

    def jac_double_mult(u, HJ, v, QJ, ec_, fixed=None):
        assert ec_ is ec
        i, j = g.idx_of_jac(HJ), g.idx_of_jac(QJ)
        if not ex.concrete:
            ex.assume(sand_(i >= 0, j >= 0))
        return g.jac(g.add_idx(g.mul_idx(u, i), g.mul_idx(v, j)))

    def mult(m, Q=None, ec_=None, **kw):
        ec2 = kw.get("ec", ec_)
        assert ec2 is ec
        i = g.g if Q is None else g.idx_of_aff(Q[0], Q[1])
        return g.aff(g.mul_idx(m, i))
    def multi_mult_var(scalars, points, ec_=None, **kw):
        acc = 0
        for m, P in zip(scalars, points):
            i = g.idx_of_aff(P[0], P[1])
            if not ex.concrete:
                ex.assume(i >= 0)
            acc = g.add_idx(acc, g.mul_idx(m, i))
        return g.aff(acc)

    def double_mult_var(u, H, v, Q, ec_=None, **kw):
        return multi_mult_var([u, v], [H, Q])
    ex.stub(curve_mod._jac_double_mult, jac_double_mult)
    ex.stub(curve_mod.mult, mult)
    ex.stub(curve_mod.multi_mult_var, multi_mult_var)
    ex.stub(curve_mod.double_mult_var, double_mult_var)
    return g


def sand_(*a):
    from sx.api import sand
    return sand(*a)
