"""C14 — BIP380 checksum against the reference; wallets recognise only what they derive (abstract derivation)."""
from sx.api import ob, sand, sor, snot, ite, implies, iff
from refs import bip380

from btclib.descriptors import descriptors as D
from btclib.exceptions import BTClibValueError
from btclib.wallet.wallet import RangedWallet

_ALPHA = bip380.INPUT_CHARSET


def _body(ex, n, prefix=""):
    """prefix + n symbolic characters drawn from the descriptor alphabet (symbolic index into INPUT_CHARSET)."""
    idx = [ex.int(f"c{i:03d}", 0, len(_ALPHA) - 1) for i in range(n)]
    codes = [ord(c) for c in prefix] + [[ord(ch) for ch in _ALPHA][i] for i in idx]
    if ex.concrete:
        return "".join(chr(c) for c in codes), codes
    from sx.seq import SymStr
    return SymStr(codes), codes


@ob("C14", "checksum_is_bip380_descsum", quick=[dict(n=n) for n in (0, 1, 2, 3, 4, 6, 9, 16, 30)], thorough=[dict(n=n) for n in list(range(0, 33)) + [48, 64, 100]],
    bound="every descriptor body of n characters drawn from the 95-character descriptor alphabet (symbolic): checksum() equals the BIP380 reference, add_checksum appends it, "
          "strip_checksum accepts the right one and returns the body",
    functions=["btclib.descriptors.descriptors.checksum", "btclib.descriptors.descriptors.add_checksum", "btclib.descriptors.descriptors.strip_checksum"],
    timeout=900, weight=3, min_ok=1, query_timeout_ms=180000)
def checksum_ref(ex, n):
    ex.merge_conditionals()
    s, codes = _body(ex, n, prefix="pk(")
    if not ex.concrete:
        ex.assume(sand(*[c != ord("#") for c in codes]))
    elif "#" in s:
        from sx.api import AssumeFailed
        raise AssumeFailed("'#' in the body")
    got = D.checksum(s)
    want = bip380.create(codes)
    got_codes = [ord(ch) for ch in got] if type(got) is str else list(got.items)
    want_codes = [[ord(ch) for ch in bip380.CHECKSUM_CHARSET][w] for w in want]
    full = D.add_checksum(s)
    back = D.strip_checksum(full)
    return {"checksum_equals_reference": sand(len(got_codes) == 8, *[a == b for a, b in zip(got_codes, want_codes)]),
            "add_then_strip_is_identity": sand(len(back) == len(s), back == s), "length": len(full) == len(s) + 9}


@ob("C14", "corrupted_checksum_is_refused", quick=[dict(n=n) for n in (1, 2)], thorough=[dict(n=n) for n in (0, 1, 2, 3)],
    bound="descriptor body of n symbolic characters with its correct checksum, one checksum character (symbolic position) replaced by any other printable ASCII character: strip_checksum refuses",
    functions=["btclib.descriptors.descriptors.strip_checksum"], timeout=900, weight=3, min_ok=0, query_timeout_ms=180000,
    outside=["single-character error detection for bodies longer than 3 characters after 'pk(' (XOR-network unsatisfiability: z3 answers unknown at 180 s from 5 symbolic characters on)"])
def corrupted(ex, n):
    ex.merge_conditionals()
    s, codes = _body(ex, n, prefix="pk(")
    if not ex.concrete:
        ex.assume(sand(*[c != ord("#") for c in codes]))
    elif "#" in s:
        from sx.api import AssumeFailed
        raise AssumeFailed("'#' in the body")
    cs = D.checksum(s)
    cs_codes = [ord(ch) for ch in cs] if type(cs) is str else list(cs.items)
    pos = ex.int("pos", 0, 7)
    new = ex.int("repl", 33, 126)       # any printable character (upper-case twins of checksum letters included)
    bad = [ite(pos == i, new, cs_codes[i]) for i in range(8)]
    ex.assume(sor(*[sand(pos == i, new != cs_codes[i]) for i in range(8)]))
    if ex.concrete:
        full = s + "#" + "".join(chr(c) for c in bad)
    else:
        from sx.seq import SymStr
        full = SymStr(list(codes) + [ord("#")] + bad)
    try:
        D.strip_checksum(full)
    except BTClibValueError:
        return ex.refuse("BTClibValueError")
    return {"corrupted_checksum_accepted": False}


# ------------------------------------------------------------------ wallets recognise only what they derive
class _Spk:
    def __init__(self, script):
        self.script = script


class _W(RangedWallet):
    """A ranged wallet over an abstract derivation: the script at (branch, index) is an injective function of the position."""
    script_type = "test"

    def __init__(self, uf):
        super().__init__("mainnet")
        self._uf = uf

    @property
    def branches(self):
        return (0, 1)

    @property
    def is_watch_only(self):
        return True

    def _script_pub_key(self, branch, index):
        return _Spk(b"\x00\x14" + self._uf(bytes([branch]) + index.to_bytes(4, "big")))


@ob("C14", "position_of_recognises_exactly_its_own_scripts", quick=[dict(last=3)], thorough=[dict(last=7)],
    bound="a ranged wallet with two branches whose script at (branch, index) is an injective uninterpreted function of the position; searched range 0..last; "
          "the probe is the script of a symbolic position (branch 0..1, index 0..last+2): found at exactly that position when inside the range, 'not mine' when outside; "
          "a script that is no position's script is 'not mine'",
    stubs=["script derivation is an injective uninterpreted function of (branch, index) (BIP32 + script assembly are C07's / C06's subject)"],
    functions=["btclib.wallet.wallet.RangedWallet.position_of"], timeout=900, min_ok=1)
def position_of(ex, last):
    from sx import instr
    if not ex.concrete:
        instr.HASH_INJECTIVE = True
    uf = ex.uf("derive", 20, injective=True)
    w = _W(uf)
    ex.stub(__import__("btclib.wallet.wallet", fromlist=["_validated_script_from"])._validated_script_from, lambda s: s)
    b = ex.int("b", 0, 1)
    i = ex.int("i", 0, last + 2)
    probe = b"\x00\x14" + uf(bytes([0]) * 0 + (bytes([b]) if ex.concrete else _mk([b])) + i.to_bytes(4, "big"))
    r = w.position_of(probe, last)
    foreign = b"\x00\x14" + ex.bytes("f", 20)
    r2 = w.position_of(foreign, last)
    inside = i <= last
    claims = {}
    if r is None:
        claims["not_found_only_outside_the_range"] = snot(inside)
    else:
        claims["found_at_its_own_position"] = sand(inside, r[0] == b, r[1] == i)
    if r2 is not None:
        claims["foreign_script_found_only_if_it_is_that_positions_script"] = foreign == w._script_pub_key(r2[0], r2[1]).script
    return claims


def _mk(items):
    from sx.seq import mk_bytes
    return mk_bytes(items)


# ------------------------------------------------------------------ descriptor wallets: position_of is the inverse of script_pub_key, whatever the chains are labelled
from btclib.descriptors.descriptors import RawDescriptor
from btclib.wallet.descriptor_wallet import DescriptorWallet


@ob("C14", "descriptor_wallet_position_of_inverts_script_pub_key", quick=[dict(labels=l) for l in ([0, 1], [3, 7], [1, 2], [5], [2, 0, 9])],
    bound="a DescriptorWallet over raw() chains whose scripts hold symbolic bytes, chains labelled 0..n-1 and with caller-chosen labels (3,7), (1,2), (5), (2,0,9): for every chain "
          "position_of(script_pub_key(label, 0)) is (label, 0) unless an earlier chain has the same script, and a probe with symbolic bytes is found exactly at a chain whose script it equals",
    stubs=["script validation of the probe (_validated_script_from) is the identity on bytes"],
    functions=["btclib.wallet.descriptor_wallet.DescriptorWallet.position_of", "btclib.descriptors.descriptors.Descriptor.index_of"], min_ok=1, timeout=300)
def wallet_position(ex, labels):
    import btclib.descriptors.descriptors as dmod
    ex.stub(dmod._validated_script_from, lambda s: s.script if hasattr(s, "script") else s)
    scripts = {lab: b"\x51" + ex.bytes(f"s{lab}_", 1) + b"\x87" for lab in labels}
    w = DescriptorWallet({lab: RawDescriptor(scripts[lab]) for lab in labels})
    claims = {}
    ordered = sorted(labels)
    for lab in labels:
        r = w.position_of(w.script_pub_key(lab, 0).script)
        earlier = [x for x in ordered if x < lab]
        shadowed = sor(*[scripts[x] == scripts[lab] for x in earlier]) if earlier else False
        if r is None:
            claims[f"own_script_of_{lab}_found"] = False
        else:
            claims[f"position_of_inverts_at_{lab}"] = sor(sand(r[0] == lab, r[1] == 0), sand(shadowed, scripts[r[0]] == scripts[lab] if r[0] in scripts else False))
    probe = b"\x51" + ex.bytes("probe", 1) + b"\x87"
    r = w.position_of(probe)
    if r is None:
        claims["foreign_only_when_no_chain_has_it"] = snot(sor(*[scripts[x] == probe for x in labels]))
    else:
        claims["probe_found_where_it_is"] = sand(r[0] in scripts, r[1] == 0, scripts[r[0]] == probe if r[0] in scripts else False)
    return claims



# ------------------------------------------------------------------ KEY expressions: which BIP32 path is derived at an index
from btclib.descriptors import key_expression as _ke


@ob("C14", "key_expression_derives_path_then_wildcard_plus_index", quick=[dict(kind=k, path=p, wild=w) for k in ("xkey", "musig") for p in ([], [0], [1, 2]) for w in (None, 0, 0x80000000)],
    bound="an extended-key and a musig() KEY expression with a fixed path of 0..2 steps and no wildcard, an unhardened one or a hardened one; index symbolic over 0..2^31-1: the key is derived "
          "along the fixed path followed by wildcard + index (BIP380 / BIP328), and a musig() without any step answers the aggregate key itself",
    stubs=["derive_, pub_keyinfo_from_key and KeyExpression.aggregate are abstract: they record the path they are asked for"],
    functions=["btclib.descriptors.key_expression.KeyExpression.sec"], min_ok=1, timeout=300)
def key_expression_path(ex, kind, path, wild):
    index = ex.int("index", 0, 0x7FFFFFFF)
    seen = {}

    def fake_derive(xkey, der_path, *a, **k):
        seen["path"] = list(der_path)
        seen["from"] = xkey
        return ("derived", xkey)

    ex.stub(_ke.derive_, fake_derive)
    ex.stub(_ke.pub_keyinfo_from_key, lambda key, network=None, *a, **k: (key, network))
    if kind == "musig":
        part = _ke.KeyExpression(pub_key=b"\x02" + b"\x11" * 32)
        key = _ke.KeyExpression(participants=(part, part), der_path=tuple(path), wildcard=wild)
        # symbolic mode matches the bound method by equality, the concrete twin patches the class attribute
        ex.stub(key.aggregate, lambda *a, **k: b"\x02" + b"\x77" * 32, owner=_ke.KeyExpression, attr="aggregate")
    else:
        key = _ke.KeyExpression(xkey="xpub-stub", der_path=tuple(path), wildcard=wild)
    got = key.sec(index, "mainnet", None)
    want = list(path) + ([wild + index] if wild is not None else [])
    if kind == "musig" and not want:
        return {"bare_musig_is_the_aggregate": sand("path" not in seen, got == b"\x02" + b"\x77" * 32)}
    claims = {"derived_once": "path" in seen}
    if "path" in seen:
        claims["path_is_fixed_steps_then_wildcard_plus_index"] = sand(len(seen["path"]) == len(want), *[a == b for a, b in zip(seen["path"], want)]) if len(seen["path"]) == len(want) else False
        claims["ranged_iff_wildcard"] = key.is_ranged == (wild is not None)
    return claims


# ------------------------------------------------------------------ tr(KEY, TREE) with ranged keys: every key at the requested index, every control block proves its leaf
from btclib.curves.curve import mult as _mult, secp256k1 as _secp
from btclib.script import taproot as _taproot

_TR_SHAPES = {"pair": lambda k: (k[1], k[2]), "left": lambda k: ((k[1], k[2]), k[3]), "right": lambda k: (k[1], (k[2], k[3])), "single": lambda k: k[1]}


@ob("C14", "tr_descriptor_derives_every_key_at_the_requested_index", quick=[dict(shape=s) for s in _TR_SHAPES], thorough=[dict(shape=s) for s in _TR_SHAPES],
    bound="tr(KEY, TREE) over ranged KEY expressions, trees of 1..3 key leaves (both leanings), derivation index 1..9 (case split; a wide symbolic index is enumerated by the descriptor's own dictionaries: solver-unknown / wall timeout): the output script, the merkle root and every leaf's control block "
          "ask every KEY expression -- the internal key included -- for its key at that index and at no other, and each control block proves its leaf against the output key (real BIP341 arithmetic on "
          "the concrete keys the stub answers)",
    stubs=["KeyExpression.sec records the index it is asked at and answers a fixed valid key per expression (real derivation is C07's subject)"],
    functions=["btclib.descriptors.descriptors.TrDescriptor._scripts", "btclib.descriptors.descriptors.TrDescriptor._leaf", "btclib.descriptors.descriptors.TrDescriptor.taproot_leaf_scripts",
               "btclib.script.taproot.check_output_pubkey"], min_ok=1, timeout=300)
def tr_descriptor_index(ex, shape):
    ex.concrete_randomness()                           # the point arithmetic below runs on concrete keys: blinding factors come from the real CSPRNG
    index = ex.concretize(ex.int("index", 1, 9))      # case split: the descriptor keys caches and dictionaries by the index, which would enumerate a wide symbolic one
    keys = [_ke.KeyExpression(xkey=f"xpub-stub-{j}", der_path=(), wildcard=0) for j in range(4)]
    secs = {}
    for j, k in enumerate(keys):
        P = _mult(j + 2, _secp.G, _secp)
        secs[id(k)] = bytes([2 + (P[1] & 1)]) + P[0].to_bytes(32, "big")
    asked = []

    def fake_sec(self, idx=0, network="mainnet", prv_keys=None):
        asked.append(idx)
        return secs[id(self)]
    if ex.concrete:
        ex.stub(_ke.KeyExpression.sec, fake_sec, owner=_ke.KeyExpression, attr="sec")      # the concrete twin patches the class attribute
    else:
        for k in keys:                                                                      # symbolic mode matches the bound method by equality
            ex.stub(k.sec, (lambda idx=0, network="mainnet", prv_keys=None, _k=k: fake_sec(_k, idx, network, prv_keys)))
    d = D.TrDescriptor(internal_key=keys[0], tree=_TR_SHAPES[shape](keys))
    spk = d.script_pub_keys(index)[0].script if hasattr(d.script_pub_keys(index)[0], "script") else d.script_pub_keys(index)[0]
    leaves = d.taproot_leaf_scripts(index)
    q = bytes(spk)[2:]
    nleaves = {"single": 1, "pair": 2}.get(shape, 3)
    claims = {"every_key_is_asked_at_the_requested_index": sand(len(asked) > 0, *[a == index for a in asked]),
              "one_control_block_per_leaf": len(leaves) == nleaves,
              "every_control_block_proves_its_leaf": all(_taproot.check_output_pubkey(q, script, cb) for cb, (script, _v) in leaves.items())}
    return claims
