"""C02 / C10 — Bitcoin message signatures: the recovery flag is read as BIP137 writes it (recovery and the codecs abstract)."""
from sx.api import ob, sand, sor, snot, ite, implies, iff

from btclib import b32 as _b32, b58 as _b58
from btclib.curves import sec_point as _sec_point
from btclib.curves.curve import secp256k1
from btclib.ecc import bms, dsa
from btclib.exceptions import BTClibValueError, BTClibRuntimeError
from btclib import hashes as _hashes

_GX = secp256k1.G[0]


@ob("C02", "message_signature_flag_is_read_as_bip137", quick=[dict(kind=k) for k in ("p2pkh", "p2sh", "p2wpkh")],
    bound="recovery flag symbolic over 26..43, the address's 20-octet hash symbolic, address kind p2pkh / p2sh / p2wpkh: assert_as_valid hands dsa's key recovery the id (flag - 27) mod 4 -- both of its bits, "
          "the second being the one that says x_K >= n --, renders the recovered key compressed exactly for flags above 30, and accepts exactly when the flag is one BIP137 (and Electrum's practice) assigns "
          "to that address kind and the address hashes that key (for p2sh: the p2wpkh script of that key); verify() answers the same as a boolean",
    stubs=["dsa.recover_pub_key records the key id it is handed and answers a point token; bytes_from_point answers an injective uninterpreted function of (key id, compressed); hash160 uninterpreted; "
           "address decoding (base58 / bech32) answers the symbolic hash for the kind under test"],
    functions=["btclib.ecc.bms.assert_as_valid", "btclib.ecc.bms.verify", "btclib.ecc.bms._assert_p2pkh", "btclib.ecc.bms._assert_p2wpkh", "btclib.ecc.bms._assert_p2wpkh_p2sh"],
    outside=["the recovery arithmetic itself (key_id_recovers_exactly_the_signer, toy curves)", "base64 text form"], min_ok=1, timeout=300)
def bms_flag(ex, kind):
    from sx import instr
    if not ex.concrete:
        instr.HASH_INJECTIVE = True
    PK = ex.uf("recovered_key", 33, injective=True)
    seen = []

    def recover(key_id, msg, sig, hf=None):
        seen.append(key_id)
        return ("Q", key_id)

    def bytes_from_point(Q, ec=None, compressed=True, **kw):
        assert Q[0] == "Q"
        body = PK(Q[1].to_bytes(1, "big") if not isinstance(Q[1], int) else bytes([Q[1]]))
        return (b"\x02" + body[1:]) if compressed else (b"\x04" + body[1:] + body[1:])
    rf = ex.int("rf", 26, 43)
    h160 = ex.bytes("h", 20)
    ex.stub(dsa.recover_pub_key, recover)
    ex.stub(_sec_point.bytes_from_point, bytes_from_point)
    ex.stub(_b32.is_segwit_prefixed, lambda a: kind == "p2wpkh")
    ex.stub(_b32.witness_from_address, lambda a: (0, h160, "mainnet"))
    ex.stub(_b58.h160_from_address, lambda a: ("p2pkh" if kind == "p2pkh" else "p2sh", h160, "mainnet"))
    sig = bms.Sig(rf, dsa.Sig(_GX % secp256k1.n, 1, check_validity=False), check_validity=False)
    try:
        bms.assert_as_valid(b"msg", "@address@", sig)
        ok = True
    except (BTClibValueError, BTClibRuntimeError):
        ok = False
    in_range = sand(27 <= rf, rf <= 42)
    compressed = rf > 30
    kid = (rf - 27) % 4
    pk33 = PK(kid.to_bytes(1, "big") if not isinstance(kid, int) else bytes([kid]))
    key = ite(compressed, b"\x02" + pk33[1:] + bytes(32), b"\x04" + pk33[1:] + pk33[1:])     # padded to one length for the if-then-else; hashed unpadded below
    hc = _hashes.hash160(b"\x02" + pk33[1:])
    hu = _hashes.hash160(b"\x04" + pk33[1:] + pk33[1:])
    if kind == "p2pkh":
        want = sand(in_range, rf <= 34, ite(compressed, h160 == hc, h160 == hu))
    elif kind == "p2sh":
        want = sand(in_range, 31 <= rf, rf <= 38, h160 == _hashes.hash160(b"\x00\x14" + hc))
    else:
        want = sand(in_range, sor(sand(31 <= rf, rf <= 34), 39 <= rf), h160 == hc)
    claims = {"accepted_exactly_as_bip137_reads_the_flag": iff(ok, want)}
    if seen:
        claims["recovery_is_asked_for_both_bits_of_the_id"] = sand(len(seen) == 1, seen[0] == kid)
    n0 = len(seen)
    claims["verify_is_the_same_answer"] = bms.verify(b"msg", "@address@", sig) == ok
    return claims
