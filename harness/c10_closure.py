"""C10 — what the library finalizes, its own engine checks against the digest the signer signed (the signature arithmetic itself abstract)."""
from sx.api import ob, sand, sor, snot, ite, implies, iff

from btclib import hashes as _hashes
from btclib.exceptions import BTClibValueError, ScriptError
from btclib.psbt import psbt as _psbt
from btclib.psbt.psbt import Psbt, finalize, extract_tx
from btclib.script.engine import script as _escript
from btclib.script.engine import tapscript as _tapscript
from btclib.script.engine import verify_input
from btclib.script.engine.flags import ScriptFlag
from btclib.script.witness import Witness
from btclib.tx.out_point import OutPoint
from btclib.tx.tx import Tx
from btclib.tx.tx_in import TxIn
from btclib.tx.tx_out import TxOut

_G = bytes.fromhex("79be667ef9dcbbac55a06295ce870b07029bfcdb2dce28d959f2815b16f81798")
_PUB = b"\x02" + _G
_DER = b"\x30\x44\x02\x20" + _G + b"\x02\x20" + b"\x22" * 32          # r = x(G) (a valid x-coordinate), s small: low-s canonical DER
_STD = ["P2SH", "WITNESS", "DERSIG", "LOW_S", "STRICTENC", "NULLFAIL", "NULLDUMMY", "CLEANSTACK", "MINIMALDATA", "MINIMALIF", "WITNESS_PUBKEYTYPE", "CHECKLOCKTIMEVERIFY",
        "CHECKSEQUENCEVERIFY", "TAPROOT"]
_ECDSA_HT = (1, 2, 3, 0x81, 0x82, 0x83)


def _flags():
    f = ScriptFlag(0)
    for n in _STD:
        if n in ScriptFlag.__members__:
            f |= ScriptFlag[n]
    return f


@ob("C10", "finalized_ecdsa_spend_is_verified_against_the_signed_digest", quick=[dict(kind=k, nin=n) for k in ("p2wpkh", "p2pkh", "p2sh_p2wpkh", "p2wsh_pk") for n in (1, 2)],
    bound="a version 0 PSBT with 1..2 inputs of the named kind (single-key p2wpkh, p2pkh, p2sh-p2wpkh, p2wsh(<key> CHECKSIG)), one output; amounts, sequences, lock time, version and the signature's "
          "hash type (six ECDSA types) symbolic; the input holds one partial signature: finalize builds the spend, extract_tx the transaction, and verify_input (standard flags) runs it -- the "
          "digest the engine hands to ECDSA verification, the digest the Finalizer verified and psbt.ecdsa_sig_hash are one value, the key and signature checked are the stored ones, the engine "
          "accepts when that verification succeeds, changing the paid amount afterwards changes the engine's digest unless the hash type is NONE, and changing the other input's sequence changes it under SIGHASH_ALL",
    stubs=["dsa.verify_ (Finalizer) and script.dsa_verify (engine) record their arguments and answer True: the ECDSA equation is C02's subject", "sha256 / ripemd160 injective uninterpreted functions"],
    functions=["btclib.psbt.psbt.finalize", "btclib.psbt.psbt.extract_tx", "btclib.script.engine.verify_input", "btclib.script.engine.script.op_checksig"],
    outside=["descriptor parsing, BIP32 derivation and RFC 6979 (C14, C07, C02)", "multisig and taproot script paths", "tampering other than the paid amount"], min_ok=1, timeout=600)
def ecdsa_closure(ex, kind, nin):
    from sx import instr
    if not ex.concrete:
        instr.HASH_INJECTIVE = True
    version = ex.int("version", 1, 0xFFFFFFFF)
    lock = ex.int("lock", 0, 499_999_999)
    ht = ex.int("ht", 1, 0x83)
    ex.assume(sor(*[ht == v for v in _ECDSA_HT]))
    h160 = _hashes.hash160(_PUB)
    wscript = b"\x21" + _PUB + b"\xac"
    redeem_wpkh = b"\x00\x14" + h160
    amounts = [ex.int(f"amt{i}", 1000, 2_100_000_000_000_000 // 4) for i in range(nin)]
    seqs = [ex.int(f"seq{i}", 0, 0xFFFFFFFF) for i in range(nin)]
    prevs, spks = [], []
    for i in range(nin):
        if kind == "p2wpkh":
            spk = b"\x00\x14" + h160
        elif kind == "p2pkh":
            spk = b"\x76\xa9\x14" + h160 + b"\x88\xac"
        elif kind == "p2sh_p2wpkh":
            spk = b"\xa9\x14" + _hashes.hash160(redeem_wpkh) + b"\x87"
        else:
            spk = b"\x00\x20" + _hashes.sha256(wscript)
        spks.append(spk)
        if kind == "p2pkh":
            amounts[i] = 50_000 + i          # the spent transaction is concrete: its id is an outpoint, and outpoints are hashed (set membership)
        prevs.append(Tx(2, 0, [TxIn(OutPoint(bytes([0x30 + i]) * 32, 0, check_validity=False), b"\x51", 0xFFFFFFFF, Witness(), check_validity=False)],
                        [TxOut(50_000 + i, spk, check_validity=False)], check_validity=False))
    paid = ex.int("paid", 546, 1_000_000)
    tx = Tx(version, lock, [TxIn(OutPoint(prevs[i].id, 0, check_validity=False), b"", seqs[i], Witness(), check_validity=False) for i in range(nin)],
            [TxOut(paid, b"\x00\x14" + b"\x42" * 20, check_validity=False)], check_validity=False)
    p = Psbt.from_tx(tx, check_validity=False)
    for i in range(nin):
        pin = p.inputs[i]
        if kind == "p2pkh":
            pin.non_witness_utxo = prevs[i]
        else:
            pin.witness_utxo = TxOut(amounts[i], spks[i], check_validity=False)
        if kind == "p2sh_p2wpkh":
            pin.redeem_script = redeem_wpkh
        if kind == "p2wsh_pk":
            pin.witness_script = wscript
        pin.partial_sigs = {_PUB: _DER + bytes([ht])}
        pin.sig_hash_type = ht
    fin_calls, eng_calls = [], []

    def fin_verify(msg_hash, key, sig, *a, **k):
        fin_calls.append((msg_hash, bytes(key) if not hasattr(key, "items") else key, sig))
        return True

    def eng_verify(msg_hash, pub_key, sig):
        eng_calls.append((msg_hash, pub_key, sig))
        return True
    ex.stub(_psbt.dsa.verify_, fin_verify)
    ex.stub(_escript.dsa_verify, eng_verify)
    want = [_psbt.ecdsa_sig_hash(p, i, hash_type=None) for i in range(nin)]
    try:
        final = extract_tx(finalize(p))
    except BTClibValueError:
        return {"an_honestly_signed_psbt_finalizes": False}
    prevouts = [TxOut(amounts[i], spks[i], check_validity=False) for i in range(nin)]
    claims = {"finalizer_checked_every_input_once": len(fin_calls) == nin}
    ok_all = True
    for i in range(nin):
        n0 = len(eng_calls)
        try:
            verify_input(prevouts, final, i, _flags())
            ok = True
        except (ScriptError, BTClibValueError):
            ok = False
        ok_all = ok_all and ok
        if len(eng_calls) != n0 + 1:
            claims[f"engine_checks_one_signature_for_input_{i}"] = False
            continue
        d_e, key_e, sig_e = eng_calls[-1]
        claims[f"input_{i}_engine_digest_is_the_signed_digest"] = sand(d_e == want[i], fin_calls[i][0] == want[i] if i < len(fin_calls) else False)
        claims[f"input_{i}_engine_checks_the_stored_key_and_signature"] = sand(key_e == _PUB, sig_e == _DER)
    claims["engine_accepts_the_finalized_spend"] = ok_all
    # tampering: the amount paid is changed after signing
    delta = ex.int("delta", 1, 1000)
    tampered = Tx(final.version, final.lock_time, final.vin, [TxOut(paid + delta, final.vout[0].script_pub_key.script, check_validity=False)], check_validity=False)
    n0 = len(eng_calls)
    try:
        verify_input(prevouts, tampered, 0, _flags())
    except (ScriptError, BTClibValueError):
        pass
    if len(eng_calls) == n0 + 1:
        base = ht & 0x1F
        claims["a_changed_amount_changes_the_digest_unless_NONE"] = implies(snot(base == 2), eng_calls[-1][0] != want[0])
    if nin == 2:
        # the other input's sequence is edited after signing: input 0's digest moves under SIGHASH_ALL (BIP143 / legacy commit to every sequence then)
        vin = list(final.vin)
        vin[1] = TxIn(vin[1].prev_out, vin[1].script_sig, (seqs[1] + delta) & 0xFFFFFFFF, vin[1].script_witness, check_validity=False)
        t2 = Tx(final.version, final.lock_time, vin, final.vout, check_validity=False)
        n0 = len(eng_calls)
        try:
            verify_input(prevouts, t2, 0, _flags())
        except (ScriptError, BTClibValueError):
            pass
        if len(eng_calls) == n0 + 1:
            moved = ((seqs[1] + delta) & 0xFFFFFFFF) != seqs[1]
            claims["another_inputs_sequence_is_committed_to_under_ALL"] = implies(sand(ht == 1, moved), eng_calls[-1][0] != want[0])
    return claims


@ob("C10", "finalized_taproot_key_spend_is_verified_against_the_signed_digest", quick=[dict(nin=n, explicit=e) for n in (1, 2) for e in (0, 1)],
    bound="a version 0 PSBT with 1..2 taproot inputs (amounts, sequences, lock time, version symbolic) each holding a key path signature of 64 bytes (SIGHASH_DEFAULT) or of 65 bytes with a symbolic "
          "hash type over the six explicit types: finalize / extract_tx / verify_input -- the digest the engine hands to BIP340 verification is the one the Finalizer verified and "
          "psbt.taproot_sig_hash computed, over the same output key and the same 64 signature bytes, the engine accepts when that verification succeeds, and editing the other input's sequence afterwards changes the digest unless the type is ANYONECANPAY (BIP341 commits to all sequences otherwise)",
    stubs=["ssa.verify_ (Finalizer) and tapscript.ssa_verify (engine) record their arguments and answer True: the BIP340 equation is C03's subject", "sha256 injective uninterpreted function"],
    functions=["btclib.psbt.psbt.finalize", "btclib.psbt.psbt._finalized_taproot_input", "btclib.script.engine.verify_input", "btclib.script.engine.tapscript.verify_key_path"],
    outside=["script path spends; the tweak from internal to output key (C12)"], min_ok=1, timeout=600)
def taproot_closure(ex, nin, explicit):
    from sx import instr
    if not ex.concrete:
        instr.HASH_INJECTIVE = True
    version = ex.int("version", 1, 0xFFFFFFFF)
    lock = ex.int("lock", 0, 499_999_999)
    spk = b"\x51\x20" + _G
    amounts = [ex.int(f"amt{i}", 1000, 2_100_000_000_000_000 // 4) for i in range(nin)]
    seqs = [ex.int(f"seq{i}", 0, 0xFFFFFFFF) for i in range(nin)]
    tx = Tx(version, lock, [TxIn(OutPoint(bytes([0x30 + i]) * 32, i, check_validity=False), b"", seqs[i], Witness(), check_validity=False) for i in range(nin)],
            [TxOut(ex.int(f"paid{j}", 546, 1_000_000), b"\x00\x14" + bytes([0x42 + j]) * 20, check_validity=False) for j in range(nin)], check_validity=False)   # SIGHASH_SINGLE needs an output per input
    p = Psbt.from_tx(tx, check_validity=False)
    sig64 = _G + b"\x22" * 32
    if explicit:
        ht = ex.int("ht", 1, 0x83)
        ex.assume(sor(*[ht == v for v in _ECDSA_HT]))
        sig = sig64 + bytes([ht])
    else:
        ht = 0
        sig = sig64
    for i in range(nin):
        p.inputs[i].witness_utxo = TxOut(amounts[i], spk, check_validity=False)
        p.inputs[i].taproot_key_spend_signature = sig
        if explicit:
            p.inputs[i].sig_hash_type = ht
    fin_calls, eng_calls = [], []
    ex.stub(_psbt.ssa.verify_, lambda m, k, s, *a, **kw: fin_calls.append((m, k, s)) or True)
    ex.stub(_tapscript.ssa_verify, lambda m, k, s: eng_calls.append((m, k, s)) or True)
    want = [_psbt.taproot_sig_hash(p, i, hash_type=ht) for i in range(nin)]
    try:
        final = extract_tx(finalize(p))
    except BTClibValueError:
        return {"an_honestly_signed_psbt_finalizes": False}
    prevouts = [TxOut(amounts[i], spk, check_validity=False) for i in range(nin)]
    claims = {"finalizer_checked_every_input_once": len(fin_calls) == nin}
    ok_all = True
    for i in range(nin):
        n0 = len(eng_calls)
        try:
            verify_input(prevouts, final, i, _flags())
        except (ScriptError, BTClibValueError):
            ok_all = False
        if len(eng_calls) != n0 + 1:
            claims[f"engine_checks_one_signature_for_input_{i}"] = False
            continue
        d_e, key_e, sig_e = eng_calls[-1]
        claims[f"input_{i}_engine_digest_is_the_signed_digest"] = sand(d_e == want[i], fin_calls[i][0] == want[i] if i < len(fin_calls) else False)
        claims[f"input_{i}_engine_checks_the_output_key_and_signature"] = sand(key_e == _G, sig_e == sig64)
    claims["engine_accepts_the_finalized_spend"] = ok_all
    if nin == 2:
        # BIP341: every signature without ANYONECANPAY commits to the sequences of all inputs, whatever its output mode
        delta = ex.int("delta", 1, 1000)
        vin = list(final.vin)
        vin[1] = TxIn(vin[1].prev_out, vin[1].script_sig, (seqs[1] + delta) & 0xFFFFFFFF, vin[1].script_witness, check_validity=False)
        t2 = Tx(final.version, final.lock_time, vin, final.vout, check_validity=False)
        n0 = len(eng_calls)
        try:
            verify_input(prevouts, t2, 0, _flags())
        except (ScriptError, BTClibValueError):
            pass
        if len(eng_calls) == n0 + 1:
            moved = ((seqs[1] + delta) & 0xFFFFFFFF) != seqs[1]
            acp = ((ht & 0x80) != 0) if explicit else False
            claims["another_inputs_sequence_is_committed_to_unless_ANYONECANPAY"] = implies(sand(snot(acp), moved), eng_calls[-1][0] != want[0])
    return claims


# ------------------------------------------------------------------ taproot script path (single-key leaf)
from btclib.script import taproot as _taproot
from btclib.script.script import serialize as _ser

_G2 = bytes.fromhex("c6047f9441ed7d6d3045406e95c07cd85c778e4b8cef3ca7abac09b95c709ee5")
_TAP = {}


def _tap_setup():
    """Concrete taproot output with two leaves (real SHA-256 / secp256k1): leaf 0 = <G2> CHECKSIG, leaf 1 = OP_1."""
    if not _TAP:
        tree = [[(0xC0, [_G2.hex().upper(), "OP_CHECKSIG"])], [(0xC0, ["OP_1"])]]
        q, _ = _taproot.output_pubkey("02" + _G.hex(), tree)
        script, control = _taproot.input_script_sig("02" + _G.hex(), tree, 0)
        sbytes = _ser(script)
        _TAP.update(q=q, script=sbytes, control=control, leaf_hash=_taproot.leaf_hash(0xC0, sbytes))
    return _TAP


@ob("C10", "finalized_taproot_script_spend_is_verified_against_the_signed_digest", quick=[dict(explicit=e) for e in (0, 1)],
    bound="a version 0 PSBT with one taproot input spent through a single-key leaf of a two-leaf tree (the output key, control block and leaf hash are computed concretely with real SHA-256 and "
          "secp256k1); amount, sequence, lock time, version and (explicit = 1) the hash type symbolic: finalize builds [signature, script, control block], verify_input checks the commitment for real and "
          "runs the leaf; the digest the engine hands to BIP340 verification is the Finalizer's and psbt.taproot_sig_hash(leaf_hash=...), over the leaf key and the 64 signature bytes; the engine accepts",
    stubs=["ssa.verify_ (Finalizer) and tapscript.ssa_verify (engine) record their arguments and answer True", "sha256 of symbolic data is an injective uninterpreted function; of concrete data the real one"],
    functions=["btclib.psbt.psbt._finalized_taproot_input", "btclib.script.engine._verify_taproot", "btclib.script.engine.tapscript.op_checksig", "btclib.script.taproot.check_output_pubkey"],
    min_ok=1, timeout=600)
def taproot_script_closure(ex, explicit):
    from sx import instr
    if not ex.concrete:
        instr.HASH_INJECTIVE = True
    ex.concrete_randomness()
    t = _tap_setup()
    version = ex.int("version", 1, 0xFFFFFFFF)
    lock = ex.int("lock", 0, 499_999_999)
    amt = ex.int("amt", 1000, 2_100_000_000_000_000 // 4)
    seq = ex.int("seq", 0, 0xFFFFFFFF)
    spk = b"\x51\x20" + t["q"]
    tx = Tx(version, lock, [TxIn(OutPoint(b"\x31" * 32, 0, check_validity=False), b"", seq, Witness(), check_validity=False)],
            [TxOut(ex.int("paid", 546, 1_000_000), b"\x00\x14" + b"\x42" * 20, check_validity=False)], check_validity=False)
    p = Psbt.from_tx(tx, check_validity=False)
    sig64 = _G + b"\x22" * 32
    if explicit:
        ht = ex.int("ht", 1, 0x83)
        ex.assume(sor(*[ht == v for v in _ECDSA_HT]))
        sig = sig64 + bytes([ht])
    else:
        ht, sig = 0, sig64
    pin = p.inputs[0]
    pin.witness_utxo = TxOut(amt, spk, check_validity=False)
    pin.taproot_leaf_scripts = {t["control"]: (t["script"], 0xC0)}
    pin.taproot_script_spend_signatures = {_G2 + t["leaf_hash"]: sig}
    pin.taproot_internal_key = _G
    if explicit:
        pin.sig_hash_type = ht
    fin_calls, eng_calls = [], []
    ex.stub(_psbt.ssa.verify_, lambda m, k, s, *a, **kw: fin_calls.append((m, k, s)) or True)
    ex.stub(_tapscript.ssa_verify, lambda m, k, s: eng_calls.append((m, k, s)) or True)
    want = _psbt.taproot_sig_hash(p, 0, leaf_hash=t["leaf_hash"], hash_type=ht)
    try:
        final = extract_tx(finalize(p))
    except BTClibValueError:
        return {"an_honestly_signed_psbt_finalizes": False}
    wit = final.vin[0].script_witness.stack
    claims = {"witness_is_signature_script_control_block": sand(len(wit) == 3, wit[0] == sig, wit[1] == t["script"], wit[2] == t["control"]) if len(wit) == 3 else False,
              "finalizer_checked_the_signature_once": len(fin_calls) == 1}
    try:
        verify_input([TxOut(amt, spk, check_validity=False)], final, 0, _flags())
        ok = True
    except (ScriptError, BTClibValueError):
        ok = False
    claims["engine_accepts_the_finalized_spend"] = ok
    if len(eng_calls) == 1 and fin_calls:
        d_e, key_e, sig_e = eng_calls[0]
        claims["engine_digest_is_the_signed_digest"] = sand(d_e == want, fin_calls[0][0] == want)
        claims["engine_checks_the_leaf_key_and_signature"] = sand(key_e == _G2, sig_e == sig64)
    else:
        claims["engine_checks_one_signature"] = False
    return claims
