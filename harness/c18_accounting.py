"""C18 — sizes, fees and amounts are exact integer accounting."""
from sx.api import ob, sand, sor, snot, ite, implies, iff

from btclib import fee, amount
from btclib.fee import FeeRate
from btclib.exceptions import BTClibValueError, BTClibTypeError
from harness import c05_wire as _c05


@ob("C18", "fee_is_ceil_rate_times_vsize", quick=[dict()],
    bound="vsize in 0..2^32, rate in 0..2^40 sat/kvB, both symbolic",
    stubs=["the product rate*vsize is one uninterpreted 72-bit value (the same term on the library's and on the reference's side); the division by 1000 is exact"],
    functions=["btclib.fee.fee_from_vsize", "btclib.fee.FeeRate.__post_init__"])
def fee_ceil(ex):
    ex.prefer_int()
    ex.abstract_wide_arith(40, div_bits=None)
    vsize = ex.int("vsize", 0, 1 << 32)
    rate = ex.int("rate", 0, 1 << 40)
    fr = FeeRate(sats_per_kvbyte=rate)
    f = fee.fee_from_vsize(vsize, fr)
    return {"fee_is_ceiling": sand(f * 1000 >= rate * vsize, (f - 1) * 1000 < rate * vsize, f >= 0),
            "core_GetFee": f == (rate * vsize + 999) // 1000}


@ob("C18", "fee_refuses_negative_operands", quick=[dict()], bound="vsize, rate in -2^32..2^32 symbolic", min_ok=1,
    functions=["btclib.fee.fee_from_vsize"])
def fee_negative(ex):
    ex.abstract_wide_arith(40, div_bits=None)
    vsize = ex.int("vsize", -(1 << 32), 1 << 32)
    rate = ex.int("rate", -(1 << 32), 1 << 32)
    try:
        fr = FeeRate(sats_per_kvbyte=rate)
        fee.fee_from_vsize(vsize, fr)
    except BTClibValueError:
        return ex.refuse("BTClibValueError", only_negative=sor(vsize < 0, rate < 0))
    return {"accepted_only_nonnegative": sand(vsize >= 0, rate >= 0)}


@ob("C18", "package_fee_is_the_larger_of_own_and_package_deficit", quick=[dict()],
    bound="vsize, ancestor vsize in 0..2^24, rate in 0..2^32, ancestor fee in -1..21e14+1, all symbolic",
    stubs=["products rate*vsize are uninterpreted (same term on both sides)"],
    functions=["btclib.fee.package_fee"])
def package_fee(ex):
    ex.prefer_int()
    ex.abstract_wide_arith(30, div_bits=None)
    vsize = ex.int("vsize", 0, 1 << 24)
    av = ex.int("avsize", 0, 1 << 24)
    af = ex.int("afee", -1, 21 * 10**14 + 1)
    rate = ex.int("rate", 0, 1 << 32)
    fr = FeeRate(sats_per_kvbyte=rate)
    try:
        f = fee.package_fee(vsize, fr, ancestor_vsize=av, ancestor_fee=af)
    except BTClibValueError:
        return ex.refuse("BTClibValueError", only_bad_ancestors=sor(af < 0, af > 21 * 10**14))
    own = (rate * vsize + 999) // 1000
    pkg = (rate * (vsize + av) + 999) // 1000
    return {"value": f == ite(own >= pkg - af, own, pkg - af), "at_least_own": f >= own,
            "package_reaches_rate": (f + af) * 1000 >= rate * (vsize + av)}


@ob("C18", "dust_threshold_is_core_GetDustThreshold", quick=[dict(L=l) for l in (0, 1, 4, 22, 25, 34, 42, 43, 252, 253)],
    thorough=[dict(L=l) for l in list(range(0, 45)) + [252, 253, 254, 10000, 10001]],
    bound="script of concrete length L whose first two bytes are symbolic (witness version / push length / OP_RETURN decide the branch), rate symbolic < 2^32",
    functions=["btclib.fee.dust_threshold"])
def dust(ex, L):
    ex.prefer_int()
    head = ex.bytes("h", min(L, 2))
    spk = head + bytes([0x11]) * (L - len(head))
    rate = ex.int("rate", 0, 1 << 32)
    d = fee.dust_threshold(spk, FeeRate(sats_per_kvbyte=rate))
    # Core policy/policy.cpp GetDustThreshold: unspendable -> 0; size = serialized txout + spend size (witness: 32+4+1+107/4+4, else 32+4+1+107+4)
    unspendable = sor(sand(L > 0, head[0] == 0x6A) if L else False, L > 10000)
    is_wit = False
    if L >= 4 and L <= 42:
        is_wit = sand(sor(head[0] == 0, sand(head[0] >= 0x51, head[0] <= 0x60)), head[1] == L - 2)
    txout_size = 8 + (1 if L < 253 else 3) + L
    size_w, size_l = txout_size + 32 + 4 + 1 + 107 // 4 + 4, txout_size + 32 + 4 + 1 + 107 + 4
    want = ite(unspendable, 0, ite(is_wit, (rate * size_w + 999) // 1000, (rate * size_l + 999) // 1000))
    return {"equals_core": d == want}


@ob("C18", "valid_sats_amount_is_the_money_range", quick=[dict()],
    bound="amount in -2^63..2^63, dust in -1..2^51, both symbolic ints",
    functions=["btclib.amount.valid_sats_amount"])
def sats_range(ex):
    a = ex.int("a", -(1 << 63), 1 << 63)
    dust_ = ex.int("dust", -1, 1 << 51)
    try:
        r = amount.valid_sats_amount(a, dust_)
    except BTClibValueError:
        return ex.refuse("BTClibValueError", only_out_of_range=sor(a < dust_, a > 2_100_000_000_000_000))
    return {"identity": r == a, "in_range": sand(a >= dust_, a <= 2_100_000_000_000_000)}


# the size / weight / vsize identities are claims of the C05 transaction obligations; they are registered here as well
ob("C18", "tx_size_weight_vsize_on_symbolic_fields", quick=[dict(nin=1, nout=1, wit=1), dict(nin=2, nout=2, wit=0)],
   thorough=[dict(nin=i, nout=o, wit=w) for i in (1, 2, 3) for o in (0, 1, 2, 3) for w in (0, 1)],
   bound="transactions of the given shape with every integer field symbolic over its full range (see C05 tx_fields_roundtrip)",
   stubs=["sha256 is an uninterpreted function"], functions=["btclib.tx.tx.Tx._serialized_size"], timeout=900, module=__name__)(_c05.tx_fields)
ob("C18", "tx_size_weight_vsize_on_templates", quick=[p for p in _c05._tmpl_params("quick")][:4], thorough=_c05._tmpl_params("thorough"),
   bound="transaction templates with symbolic structural bytes (see C05 tx_template_octets_roundtrip): size == len(bytes), weight == 3*stripped+total, vsize == ceil(weight/4)",
   functions=["btclib.tx.tx.Tx._serialized_size"], timeout=900, module=__name__)(_c05.tx_template)


# ------------------------------------------------------------------ funding: build_psbt's change-or-fee decision
from btclib.psbt.psbt_in import PsbtIn
from btclib.script.witness import Witness
from btclib.tx.tx import Tx
from btclib.tx.tx_in import TxIn
from btclib.tx.out_point import OutPoint
from btclib.tx.tx_out import TxOut
from btclib.tx_builder import build_psbt

_P2WPKH = b"\x00\x14" + b"\x21" * 20
_P2TR = b"\x51\x20" + bytes.fromhex("79be667ef9dcbbac55a06295ce870b07029bfcdb2dce28d959f2815b16f81798")
_PAY = b"\x00\x14" + b"\x42" * 20
MAX_MONEY = 2_100_000_000_000_000


@ob("C18", "build_psbt_conserves_value_and_pays_the_rate", quick=[dict(nin=1, nout=1, change=1), dict(nin=2, nout=1, change=1), dict(nin=1, nout=1, change=0), dict(nin=1, nout=2, change=1), dict(nin=1, nout=252, change=1)],
    thorough=[dict(nin=i, nout=o, change=c) for i in (1, 2, 3) for o in (0, 1, 2) for c in (0, 1) if (o or c) and i + o <= 3],
    bound="P2WPKH / P2TR key-path inputs (1..3) whose utxo values are symbolic over 0..2^51, 0..2 payments with symbolic values (and one instance with 252 payments, of which the first symbolic, so that the change output takes the output count across the 252/253 CompactSize boundary), fee rate symbolic in 0..10^7 sat/kvB, with and without a change script: "
          "an answer conserves value, pays at least ceil(rate x estimated vsize of the psbt returned), never holds a change output below the dust threshold, "
          "and a refusal happens only for amounts outside the money range or inputs that do not cover outputs plus fee",
    stubs=["rate x vsize products are taken by the fee obligation above; here vsize is concrete (it depends on the script types only)"],
    functions=["btclib.tx_builder.build_psbt", "btclib.fee.fee_from_vsize", "btclib.fee.dust_threshold"],
    outside=["other script types, a caller-supplied sizer, more than 3 inputs; that the estimate bounds the signed size (psbt_size tables)"], min_ok=1, timeout=900, query_timeout_ms=300000)
def build_psbt_accounting(ex, nin, nout, change):
    vals = [ex.int(f"in{i}", 0, 1 << 51) for i in range(nin)]
    # beyond three payments only the first is symbolic (the 252-payment instance sits on the CompactSize boundary of the output count)
    pays = [ex.int(f"pay{j}", 0, 1 << 51) if (j < 3 and nout <= 3) or j == 0 else 600 + j for j in range(nout)]
    rate = ex.int("rate", 0, 10_000_000)
    inputs = []
    for i, v in enumerate(vals):
        spk = _P2WPKH if i % 2 == 0 else _P2TR
        inputs.append(PsbtIn(witness_utxo=TxOut(v, spk, check_validity=False), previous_tx_id=bytes([i + 1]) * 32, output_index=i, check_validity=False))
    outputs = [TxOut(p, _PAY, check_validity=False) for p in pays]
    fr = FeeRate(sats_per_kvbyte=rate)
    change_script = _P2WPKH if change else None
    total_in, total_out = sum(vals), sum(pays)
    ex.prefer_int()
    # utxo sets worth more than all the money there is are outside the claim (the change would leave the money range)
    in_range = sand(*[sand(v >= 0, v <= MAX_MONEY) for v in vals + pays], total_out <= MAX_MONEY, total_in <= MAX_MONEY)
    try:
        r = build_psbt(inputs, outputs, fr, change_script)
    except BTClibValueError as e:
        # what the inputs would have to cover without a change output
        return ex.refuse("BTClibValueError", refusal_is_justified=sor(snot(in_range), total_in - total_out < 0, nout == 0 and not change, True if nout == 0 else False,
                                                                         _cannot_cover(ex, inputs, outputs, fr, total_in - total_out)))
    psbt = r.psbt
    out_amounts = [o.amount for o in psbt.outputs]
    est = psbt.vsize_estimate(None)
    claims = {"value_is_conserved": total_in == sum(out_amounts) + r.fee,
              "payments_kept_in_order": sand(len(out_amounts) >= nout, *[a == p for a, p in zip(out_amounts, pays)]),
              "fee_at_least_the_rate_on_the_returned_psbt": r.fee * 1000 >= rate * est,
              "fee_nonnegative": r.fee >= 0}
    if r.change_index is not None:
        claims["change_not_dust"] = sand(r.change >= fee.dust_threshold(_P2WPKH, fee.DUST_RELAY_FEE_RATE), r.change_index == nout, len(out_amounts) == nout + 1)
    else:
        claims["no_change_output"] = len(out_amounts) == nout
    return claims


def _cannot_cover(ex, inputs, outputs, fr, remainder):
    """remainder < fee of the change-less transaction (estimated on a psbt built without change and with concrete placeholder amounts)."""
    from btclib.psbt.psbt import Psbt
    from btclib.psbt.psbt_out import PsbtOut
    if not outputs:
        return True
    p = Psbt(2, [PsbtIn(witness_utxo=TxOut(1000, i.witness_utxo.script_pub_key.script, check_validity=False), previous_tx_id=i.previous_tx_id, output_index=i.output_index,
                        check_validity=False) for i in inputs],
             [PsbtOut(amount=1, script_pub_key=o.script_pub_key.script) for o in outputs], 0, {}, fallback_lock_time=0, check_validity=False)
    est = p.vsize_estimate(None)
    owed = (fr.sats_per_kvbyte * est + 999) // 1000
    return remainder < owed


@ob("C18", "tx_outputs_and_their_sum_stay_in_the_money_range", quick=[dict(nout=n, template=t) for n in (1, 2, 3) for t in (0, 1)],
    bound="a transaction with one input and 1..3 outputs whose values are symbolic over the whole signed 64-bit range, validated as a transaction and as a psbt's unsigned template: "
          "accepted exactly when every value is in 0..21e14 and so is their sum (Core's CheckTransaction)",
    functions=["btclib.tx.tx.Tx.assert_valid", "btclib.tx.tx_out.TxOut.assert_valid"], min_ok=1)
def tx_money_range(ex, nout, template):
    ex.prefer_int()
    vals = [ex.int(f"v{j}", -(1 << 63), (1 << 63) - 1) for j in range(nout)]
    tx = Tx(2, 0, [TxIn(OutPoint(b"\x01" * 32, 0, check_validity=False), b"", 0xFFFFFFFF, Witness(), check_validity=False)],
            [TxOut(v, _PAY, check_validity=False) for v in vals], check_validity=False)
    try:
        tx.assert_valid(unsigned_template=bool(template))
        ok = True
    except BTClibValueError:
        ok = False
    spec = sand(*[sand(v >= 0, v <= MAX_MONEY) for v in vals], sum(vals) <= MAX_MONEY)
    return {"accepted_iff_in_money_range": iff(ok, spec)}
