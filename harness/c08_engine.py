"""C08 — the script engine against a transcription of Bitcoin Core's EvalScript (signature-free part).

Programs are concrete (enumerated); stack operands are symbolic bytes of concrete lengths; the verification
flags are a parameter. Claim: the library's verify_script and the transcription agree on accept / refuse and,
when both accept, on the whole final stack. A refusal must be ScriptError / BTClibValueError.
"""
import itertools

from sx.api import ob, sand, sor, snot, ite, implies, iff
from refs import core_script as core

from btclib import hashes as _hashes
from btclib.exceptions import BTClibValueError, ScriptError, BTClibException
from btclib.script.engine.flags import ScriptFlag
from btclib.script.engine.script import verify_script
from btclib.tx.tx import Tx
from btclib.tx.tx_in import TxIn
from btclib.tx.tx_out import TxOut
from btclib.tx.out_point import OutPoint
from btclib.script.witness import Witness

FLAGSETS = {
    "none": ScriptFlag.P2SH | ScriptFlag.CHECKLOCKTIMEVERIFY | ScriptFlag.CHECKSEQUENCEVERIFY,
    "minimal": ScriptFlag.P2SH | ScriptFlag.CHECKLOCKTIMEVERIFY | ScriptFlag.CHECKSEQUENCEVERIFY | ScriptFlag.MINIMALDATA | ScriptFlag.MINIMALIF
               | ScriptFlag.DISCOURAGE_UPGRADABLE_NOPS,
}


def _tx(version=2, lock_time=0, sequence=0xFFFFFFFF):
    vin = [TxIn(OutPoint(b"\x01" * 32, 0, check_validity=False), b"", sequence, Witness(), check_validity=False)]
    vout = [TxOut(1000, b"\x51", check_validity=False)]
    return Tx(version, lock_time, vin, vout, check_validity=False)


def _hashes_table():
    return {core.OP_RIPEMD160: _hashes.ripemd160, core.OP_SHA1: _hashes.sha1, core.OP_SHA256: _hashes.sha256,
            core.OP_HASH160: _hashes.hash160, core.OP_HASH256: _hashes.hash256}


def differential(ex, program_hex, lens, flagset, segwit=False, tx=None, txargs=None):
    program = bytes.fromhex(program_hex)
    flags = FLAGSETS[flagset]
    init = [ex.bytes(f"s{k}_", n) for k, n in enumerate(lens)]
    txargs = txargs or {}
    tx = tx or _tx()
    lib_stack = list(init)
    try:
        verify_script(program, lib_stack, 1000, tx, 0, flags, segwit)
        lib_ok = True
    except (ScriptError, BTClibValueError):
        lib_ok = False
    ref_stack = list(init)
    try:
        core.eval_script(ref_stack, program, minimaldata=ScriptFlag.MINIMALDATA in flags, minimalif=ScriptFlag.MINIMALIF in flags,
                         discourage_nops=ScriptFlag.DISCOURAGE_UPGRADABLE_NOPS in flags, witness_v0=segwit, hashes=_hashes_table(), **txargs)
        ref_ok = True
    except core.ScriptErr:
        ref_ok = False
    claims = {"same_verdict_as_core": lib_ok == ref_ok}
    if lib_ok and ref_ok:
        same = len(lib_stack) == len(ref_stack)
        if same:
            for a, b in zip(lib_stack, ref_stack):
                same = sand(same, len(a) == len(b), a == b) if len(a) == len(b) else False
        claims["same_final_stack_as_core"] = same
    return claims


# ------------------------------------------------------------------ single opcodes
UNARY = ["8b", "8c", "8f", "90", "91", "92", "82", "76", "73", "75", "69", "a6", "a7", "a8", "a9", "aa", "6b", "74", "6b6c"]
BINARY = ["93", "94", "9a", "9b", "9c", "9d", "9e", "9f", "a0", "a1", "a2", "a3", "a4", "87", "88", "77", "78", "7c", "7d", "6e", "6d", "79", "7a"]
TERNARY = ["a5", "7b", "6f", "79", "7a"]
QUATERNARY = ["70", "72"]
SENARY = ["71"]


def _single_params(tier):
    out = []
    ulens = [0, 1, 2, 4, 5] if tier == "quick" else [0, 1, 2, 3, 4, 5]
    blens = [(0, 1), (1, 1), (2, 1), (1, 4), (4, 4), (5, 1)] if tier == "quick" else list(itertools.product([0, 1, 2, 4, 5], repeat=2))
    tlens = [(1, 1, 1), (2, 0, 4), (0, 1, 1)] if tier == "quick" else [(1, 1, 1), (2, 0, 4), (0, 1, 1), (4, 4, 4), (5, 1, 1), (1, 2, 0), (1, 1, 5)]
    for fs in FLAGSETS:
        for p in UNARY:
            for n in ulens:
                out.append(dict(program=p, lens=[n], flagset=fs))
            out.append(dict(program=p, lens=[], flagset=fs))
        for p in BINARY:
            for ls in blens:
                out.append(dict(program=p, lens=list(ls), flagset=fs))
            out.append(dict(program=p, lens=[1], flagset=fs))
        for p in TERNARY:
            for ls in tlens:
                out.append(dict(program=p, lens=list(ls), flagset=fs))
            out.append(dict(program=p, lens=[1, 1], flagset=fs))
        for p in QUATERNARY:
            out.append(dict(program=p, lens=[1, 0, 2, 1], flagset=fs))
            out.append(dict(program=p, lens=[1, 1, 1], flagset=fs))
        for p in SENARY:
            out.append(dict(program=p, lens=[1, 0, 2, 1, 1, 3], flagset=fs))
            out.append(dict(program=p, lens=[1, 1, 1, 1, 1], flagset=fs))
    return out


@ob("C08", "single_opcode_vs_core", quick=_single_params("quick"), thorough=_single_params("thorough"),
    bound="one opcode (or TOALTSTACK FROMALTSTACK) run on 0..6 stack elements of the listed concrete lengths (0..5 bytes) with every byte symbolic; "
          "flag sets {legacy, MINIMALDATA|MINIMALIF|DISCOURAGE_UPGRADABLE_NOPS}; every stack, arithmetic, comparison, hash opcode",
    stubs=["hash opcodes: sha256 / sha1 / ripemd160 are uninterpreted functions shared by the library and the transcription"],
    functions=["btclib.script.engine.script.verify_script", "btclib.script.engine.script._run_ops", "btclib.script.engine.script_op_codes._to_num"],
    outside=["signature opcodes (CHECKSIG family) -- the signature check itself is 256-bit arithmetic", "stack elements longer than 5 bytes in this obligation"],
    min_ok=1, timeout=300)
def single_opcode(ex, program, lens, flagset):
    return differential(ex, program, lens, flagset)


# ------------------------------------------------------------------ conditionals
_COND_ALPHABET = ["63", "64", "67", "68", "51", "00", "7e", "50", "65", "6a", "61", "62", "b0"]   # IF NOTIF ELSE ENDIF 1 0 CAT(disabled) RESERVED VERIF RETURN NOP VER NOP1


def _cond_params(tier):
    L = 3 if tier == "quick" else 4
    out = []
    for n in range(1, L + 1):
        for combo in itertools.product(_COND_ALPHABET, repeat=n):
            if not any(c in ("63", "64", "67", "68") for c in combo):
                continue
            if tier == "quick" and n == 3 and sum(c in ("63", "64") for c in combo) != 1:
                continue
            out.append("".join(combo))
    res = []
    for i, p in enumerate(out):
        res.append(dict(program=p, lens=[1], flagset="minimal" if i % 2 else "none", segwit=bool(i % 3 == 0)))
    return res


@ob("C08", "conditionals_vs_core", quick=_cond_params("quick"), thorough=_cond_params("thorough"),
    bound="every program of 1..3 (thorough 1..4) opcodes over {IF, NOTIF, ELSE, ENDIF, 1, 0, CAT(disabled), RESERVED, VERIF, RETURN, NOP, VER, NOP1} containing a conditional, "
          "run on one symbolic 1-byte stack element; legacy and witness-v0 (MINIMALIF) contexts alternate",
    functions=["btclib.script.engine.script_op_codes.op_if", "btclib.script.engine.script_op_codes.op_else", "btclib.script.engine.script_op_codes.op_endif"],
    min_ok=1, timeout=300)
def conditionals(ex, program, lens, flagset, segwit):
    return differential(ex, program, lens, flagset, segwit=segwit)


# ------------------------------------------------------------------ pushes
def _push_params(tier):
    out = []
    for fs in FLAGSETS:
        for shape in (["01", None], ["02", None, "80"], ["02", "00", None], ["4c", "01", None], ["4c", "02", None, "00"], ["4d", "01", "00", None], ["4e", "01", "00", "00", "00", None],
                      ["4c", None], ["4d", None, "00"], ["4c", "00"], ["00"], ["4f"], ["51"], ["60"], ["01"], ["4c"], ["4d", "01"], ["4e", "01", "00", "00"]):
            out.append(dict(shape=shape, flagset=fs))
    return out


@ob("C08", "pushes_vs_core", quick=_push_params("quick"),
    bound="push programs (direct pushes, PUSHDATA1/2/4, truncated pushes, small-integer opcodes) whose data bytes and, in some shapes, length bytes are symbolic",
    functions=["btclib.script.engine.script_op_codes.read_push_data", "btclib.script.engine.script_op_codes.assert_minimal_push"], min_ok=1, timeout=300)
def pushes(ex, shape, flagset):
    # the program itself is symbolic here, so the differential is run through the byte-level entry points
    items = [int(b, 16) if b is not None else None for b in shape]
    prog = [v if v is not None else ex.int(f"p{k:03d}", 0, 255) for k, v in enumerate(items)]
    if ex.concrete:
        program = bytes(prog)
    else:
        from sx.seq import mk_bytes
        program = mk_bytes(prog)
    # a symbolic program must be concrete for the engine's parser: case-split every symbolic program byte through the solver
    program = bytes(ex.concretize(b) for b in program) if not ex.concrete else program
    return differential(ex, program.hex(), [], flagset)


# ------------------------------------------------------------------ locktime opcodes
def _lock_params():
    out = []
    for op in ("b1", "b2"):
        for n in (0, 1, 2, 3, 4, 5, 6):
            out.append(dict(op=op, n=n))
    return out


@ob("C08", "cltv_csv_vs_bip65_bip112", quick=_lock_params(),
    bound="CLTV / CSV on one stack element of 0..6 symbolic bytes; transaction lock time, input sequence (32 bits) and version (1..3) symbolic",
    functions=["btclib.script.engine.script_op_codes.op_checklocktimeverify", "btclib.script.engine.script_op_codes.op_checksequenceverify"], min_ok=1, timeout=600)
def locktime_ops(ex, op, n):
    lock = ex.int("lock", 0, 0xFFFFFFFF)
    seq_ = ex.int("seq", 0, 0xFFFFFFFF)
    ver = ex.int("ver", 1, 3)
    tx = _tx(ver, lock, seq_)
    return differential(ex, op, [n], "minimal", tx=tx, txargs=dict(tx_lock_time=lock, tx_in_sequence=seq_, tx_version=ver))


# ------------------------------------------------------------------ limits
@ob("C08", "op_count_limit", quick=[dict(n=n) for n in (200, 201, 202)],
    bound="n NOPs (n in 200..202) around the 201 limit, followed by a symbolic-operand 1ADD", functions=["btclib.script.engine.script.script_op_count"], min_ok=0)
def op_count(ex, n):
    return differential(ex, "61" * (n - 1) + "8b", [1], "none")


@ob("C08", "stack_size_limit", quick=[dict(n=n) for n in (998, 999, 1000)],
    bound="n initial elements then DUP DUP (crossing 1000)", functions=["btclib.script.engine.script_op_codes.assert_stack_size"], min_ok=0, timeout=300)
def stack_size(ex, n):
    program = bytes.fromhex("7676")
    flags = FLAGSETS["none"]
    top = ex.bytes("top", 1)
    init = [b"\x01"] * (n - 1) + [top]
    lib_stack = list(init)
    try:
        verify_script(program, lib_stack, 1000, _tx(), 0, flags, False)
        lib_ok = True
    except (ScriptError, BTClibValueError):
        lib_ok = False
    ref_stack = list(init)
    try:
        core.eval_script(ref_stack, program, hashes=_hashes_table())
        ref_ok = True
    except core.ScriptErr:
        ref_ok = False
    return {"same_verdict_as_core": lib_ok == ref_ok}
