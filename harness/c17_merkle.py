"""C17 — merkle roots, branches, mutation flag (hash256 = injective uninterpreted function)."""
from sx.api import ob, sand, sor, snot, ite, implies, iff
from sx import api

from btclib import hashes
from btclib.block import merkle_proof
from btclib.exceptions import BTClibValueError


def _ref_levels(leaves, hf):
    """Bitcoin's merkle tree (ComputeMerkleRoot): every level, bottom first; odd levels duplicate their last node."""
    levels = [list(leaves)]
    mutated = False
    while len(levels[-1]) > 1:
        cur = list(levels[-1])
        for i in range(0, len(cur) - 1, 2):
            mutated = sor(mutated, cur[i] == cur[i + 1])
        if len(cur) % 2:
            cur.append(cur[-1])
        levels[-1] = cur
        levels.append([hf(cur[i] + cur[i + 1]) for i in range(0, len(cur), 2)])
    return levels, mutated


def _ref_branch(levels, index):
    out = []
    for lvl in levels[:-1]:
        out.append(lvl[index ^ 1])
        index >>= 1
    return out


def _setup(ex, n):
    from sx import instr
    if not ex.concrete:
        instr.HASH_INJECTIVE = True
    hf = ex.uf("h256", 32, injective=True)
    leaves = [ex.bytes(f"leaf{i}_", 32) for i in range(n)]
    return hf, leaves


@ob("C17", "merkle_root_and_mutation_flag", quick=[dict(n=n) for n in range(1, 6)], thorough=[dict(n=n) for n in range(1, 10)],
    bound="n symbolic 32-byte leaves, n = 1..5 (quick) / 1..9 (thorough)",
    stubs=["hash256 is an injective uninterpreted function (collision resistance assumed; equal arguments give equal digests)"],
    functions=["btclib.hashes.merkle_root_and_mutated_from_hashes"], weight=2)
def merkle_root(ex, n):
    hf, leaves = _setup(ex, n)
    root, mutated = hashes.merkle_root_and_mutated_from_hashes(leaves, hf)
    levels, ref_mut = _ref_levels(leaves, hf)
    return {"root_is_bitcoin_merkle_root": root == levels[-1][0], "mutated_flag_iff_equal_adjacent_pair": iff(mutated, ref_mut)}


def _branch_params(ns):
    return [dict(n=n, i=i) for n in ns for i in range(n)]


@ob("C17", "merkle_branch_proves_its_leaf_only", quick=_branch_params([1, 2, 3, 5]), thorough=_branch_params(range(1, 10)),
    bound="n symbolic 32-byte leaves (quick n in {1,2,3,5}; thorough 1..9), the honest branch of leaf i; the alternative claim is an arbitrary 32-byte leaf at an arbitrary index below 2^(depth+1)",
    stubs=["hash256 is an injective uninterpreted function (collision resistance assumed)"],
    functions=["btclib.hashes.merkle_root_from_branch"], weight=3, timeout=900)
def merkle_branch(ex, n, i):
    hf, leaves = _setup(ex, n)
    levels, ref_mut = _ref_levels(leaves, hf)
    root = levels[-1][0]
    branch = _ref_branch(levels, i)
    depth = len(branch)
    claims = {}
    # completeness: the honest branch proves leaf i at index i (unless the tree is a mutated one, which the verifier may refuse)
    try:
        got = hashes.merkle_root_from_branch(leaves[i], branch, i, hf)
        claims["honest_branch_recomputes_root"] = got == root
    except BTClibValueError:
        claims["honest_branch_refused_only_if_right_child_equals_sibling"] = ref_mut if n > 1 else False
    # soundness: any (leaf, index) this branch proves against this root is (leaf_i, i)
    other = ex.bytes("other", 32)
    j = ex.int("j", 0, (1 << (depth + 1)) - 1)
    try:
        got2 = hashes.merkle_root_from_branch(other, branch, j, hf)
    except BTClibValueError:
        return claims
    # (for a tree that is itself a CVE-2012-2459 mutation -- two equal siblings somewhere -- the root does not
    #  commit to one list, which is what the mutated flag reports; soundness is claimed for unmutated trees)
    claims["no_other_leaf_or_index"] = implies(sand(snot(ref_mut), got2 == root), sand(other == leaves[i], j == i))
    return claims


@ob("C17", "merkle_proof_verify_total_and_display_order", quick=[dict(i=0), dict(i=1)],
    bound="two concrete leaves (so the CVE-2017-12842 inner-node check runs on one 64-byte node with a single symbolic byte), the branch of leaf i, "
          "one byte of the sibling XOR-ed with a symbolic value 0..255, claimed index symbolic in 0..3",
    stubs=["sha256 (hence hash256) of symbolic data is an injective uninterpreted function; of concrete data it is the real function"],
    functions=["btclib.block.merkle_proof.verify", "btclib.block.merkle_proof.assert_as_valid", "btclib.block.merkle_proof._assert_inner_node_is_not_a_tx"],
    weight=3, timeout=600)
def merkle_proof_verify(ex, i):
    from sx import instr
    if not ex.concrete:
        instr.HASH_INJECTIVE = True
    leaves = [bytes([0x11 * (k + 1)]) * 32 for k in range(2)]
    root = hashes.hash256(leaves[0] + leaves[1])
    sibling = leaves[i ^ 1]
    disp = lambda b: b[::-1]
    d = ex.int("delta", 0, 255)
    j = ex.int("j", 0, 3)
    tam = bytes([sibling[0] ^ d]) + sibling[1:]
    r = merkle_proof.verify(disp(leaves[i]), [disp(tam)], j, disp(root))
    return {"verify_returns_bool": sor(r == True, r == False),   # noqa: E712
            "accepts_exactly_the_untampered_branch_at_the_true_index": iff(r == True, sand(d == 0, j == i))}   # noqa: E712


@ob("C17", "merkle_branch_inner_node_hook_sees_exactly_what_is_hashed", quick=[dict(depth=d) for d in (1, 2, 3)], thorough=[dict(depth=d) for d in (1, 2, 3, 4, 5)],
    bound="leaf and `depth` siblings symbolic (32 octets each), leaf index symbolic over 0..2^depth+1: the inner-node hook (the CVE-2017-12842 guard's entry point) is called once per level with exactly the "
          "64 octets that level hashes -- sibling||node for a right child, node||sibling for a left one -- in order, and the root is the fold of those",
    functions=["btclib.hashes.merkle_root_from_branch"], min_ok=1, timeout=300)
def inner_node_hook(ex, depth):
    from sx import instr
    if not ex.concrete:
        instr.HASH_INJECTIVE = True
    hf = ex.uf("h256", 32, injective=True)
    leaf = ex.bytes("leaf", 32)
    sibs = [ex.bytes(f"s{j}_", 32) for j in range(depth)]
    index = ex.int("index", 0, 2 ** depth + 1)
    checked, hashed = [], []

    def hook(pair):
        checked.append(pair)

    def recording_hf(b):
        hashed.append(b)
        return hf(b)
    try:
        root = hashes.merkle_root_from_branch(leaf, sibs, index, recording_hf, hook)
    except BTClibValueError:
        return ex.refuse("BTClibValueError")
    node, idx, want = leaf, index, []
    for s_ in sibs:
        pair = ite(idx % 2 == 1, s_ + node, node + s_)
        want.append(pair)
        node = hf(pair)
        idx = idx // 2
    same = lambda a, b: len(a) == len(b) and sand(*[sand(len(x) == len(y), x == y) for x, y in zip(a, b)])   # noqa: E731
    return {"hook_called_once_per_level": len(checked) == depth, "hook_sees_what_is_hashed": same(checked, hashed), "pairs_are_ordered_by_the_index_bits": same(hashed, want), "root_is_the_fold": root == node}
