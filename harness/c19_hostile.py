"""C19 — hostile input is refused with library exceptions only; predicates are total; streams are not over-read.

Every harness here catches btclib's own exception hierarchy and nothing else: any other exception
class that surfaces on a feasible path is reported (and replayed) as a violation. The round-trip
obligations of C05 carry the same filter; this module adds the entry points and the validating
(check_validity=True) arms that C05 does not visit, and the boolean verifiers.
"""
from sx.api import ob, sand, sor, snot, ite, implies, iff
from harness.common import LIB_ERRORS, mkstream, resolve

from btclib.exceptions import BTClibException


def _entry(table, name, path, kw=None, q=(), t=None, mode="octets", prefix=b"", fns=None):
    table.append(dict(name=name, path=path, kw=kw or {}, q=list(q), t=list(t if t is not None else q), mode=mode, prefix=prefix.hex(), fns=fns))


ENTRIES = []
_entry(ENTRIES, "tx_parse_validating", "btclib.tx.tx:Tx.parse", dict(check_validity=True), q=range(9, 14), t=range(9, 18))
_entry(ENTRIES, "tx_in_parse_validating", "btclib.tx.tx_in:TxIn.parse", dict(check_validity=True), q=[41, 42], t=[40, 41, 42, 43, 44])
_entry(ENTRIES, "tx_out_parse_validating", "btclib.tx.tx_out:TxOut.parse", dict(check_validity=True), q=[9, 10, 11], t=range(8, 16))
_entry(ENTRIES, "witness_parse_validating", "btclib.script.witness:Witness.parse", dict(check_validity=True), q=range(0, 7), t=range(0, 11))
_entry(ENTRIES, "block_parse", "btclib.block.block:Block.parse", dict(check_validity=False), q=[81, 91, 92], t=[80, 81, 82, 91, 92, 93, 94], mode="stream")
_entry(ENTRIES, "script_parse", "btclib.script.script:parse", {}, q=range(0, 2), t=range(0, 3))
_entry(ENTRIES, "script_parse_stream", "btclib.script.script:parse", {}, q=range(1, 2), t=range(0, 3), mode="stream")
_entry(ENTRIES, "dsa_sig_parse_lax", "btclib.ecc.dsa:Sig.parse", dict(check_validity=False, strict=False), q=range(0, 11), t=range(0, 15))
_entry(ENTRIES, "psbt_deserialize_map", "btclib.psbt.psbt_utils:deserialize_map", {}, q=range(0, 4), t=range(0, 4), mode="stream")
_entry(ENTRIES, "psbt_parse", "btclib.psbt.psbt:Psbt.parse", dict(check_validity=True), q=range(0, 4), t=range(0, 4), prefix=b"psbt\xff")
_entry(ENTRIES, "p2p_message_parse_validating", "btclib.p2p.message:Message.parse", dict(check_validity=True), q=[23, 24, 25], t=range(22, 28))
_entry(ENTRIES, "key_origin_parse_validating", "btclib.bip32.key_origin:BIP32KeyOrigin.parse", dict(check_validity=True), q=[0, 3, 4, 5, 8, 9], t=range(0, 17))
_entry(ENTRIES, "taproot_script_parse", "btclib.script.taproot:parse", {}, q=range(0, 2), t=range(0, 3))
_entry(ENTRIES, "cmpctblock_parse_validating", "btclib.p2p.compact_blocks:CmpctBlock.parse", dict(check_validity=True), q=[89, 90, 96], t=[88, 89, 90, 91, 96, 97])
_entry(ENTRIES, "headers_parse_validating", "btclib.p2p.inventory:Headers.parse", dict(check_validity=True), q=[1, 82], t=[0, 1, 2, 82, 83])
_entry(ENTRIES, "version_parse_validating", "btclib.p2p.handshake:Version.parse", dict(check_validity=True), q=[85, 86], t=range(84, 92))
_entry(ENTRIES, "addrv2_parse_validating", "btclib.p2p.addrv2:AddrV2.parse", dict(check_validity=True), q=[1, 17, 18], t=range(0, 24))


def _mk(e):
    fn = resolve(e["path"])
    prefix = bytes.fromhex(e["prefix"])

    def h(ex, N):
        b = prefix + ex.bytes("b", N) if prefix else ex.bytes("b", N)
        if e["mode"] == "stream":
            s = mkstream(ex, b)
            try:
                obj = fn(s, **e["kw"])
            except LIB_ERRORS as x:
                return ex.refuse(type(x).__name__)
            return {"position_within_buffer": sand(s.tell() >= 0, s.tell() <= len(b))}
        try:
            obj = fn(b, **e["kw"])
        except LIB_ERRORS as x:
            return ex.refuse(type(x).__name__)
        return {"returned_an_object": obj is not None}
    h.__module__ = __name__
    return h


for _e in ENTRIES:
    _f = resolve(_e["path"])
    _f = getattr(_f, "__func__", _f)
    ob("C19", _e["name"], quick=[dict(N=n) for n in _e["q"]], thorough=[dict(N=n) for n in _e["t"]], min_ok=0,
       bound=f"every input of N symbolic bytes after the fixed prefix {_e['prefix'] or '(none)'}, N in {_e['q']} (quick) / {_e['t']} (thorough); kwargs {_e['kw']}; "
             "claim: the outcome is a value or an exception of btclib.exceptions, on every path",
       functions=[_f.__module__ + "." + _f.__qualname__])(_mk(_e))


# ------------------------------------------------------------------ stream discipline of the p2p envelope
from btclib.p2p.message import Message
from btclib.exceptions import IncompleteMessageError


@ob("C19", "p2p_message_stream_is_left_where_documented", quick=[dict(K=3, N=n) for n in (5, 23, 24, 25)], thorough=[dict(K=k, N=n) for k in (0, 3) for n in (0, 1, 5, 23, 24, 25, 26, 27)],
    bound="a BytesIO already positioned K bytes in, followed by N symbolic bytes: after an IncompleteMessageError the stream is back where the message started; "
          "after success it is on the byte after the message",
    functions=["btclib.p2p.message.Message.parse"], min_ok=0)
def message_stream_position(ex, K, N):
    b = bytes(range(1, K + 1)) + ex.bytes("b", N)
    s = mkstream(ex, b)
    s.read(K)
    try:
        m = Message.parse(s, check_validity=False)
    except IncompleteMessageError:
        return ex.refuse("IncompleteMessageError", rewound_to_message_start=s.tell() == K)
    except LIB_ERRORS as x:
        return ex.refuse(type(x).__name__)
    return {"consumed_exactly_the_message": s.tell() == K + 24 + len(m.payload)}


# ------------------------------------------------------------------ script parsers on push templates (op code concrete, length bytes and data symbolic)
from btclib.script import script as _script
from btclib.script import taproot as _taproot

_PUSH_TEMPLATES = {"direct2": ["02", None, None], "pushdata1": ["4c", None, None, None], "pushdata2": ["4d", None, None, None], "pushdata4": ["4e", None, None, None, None, None],
                   "two_pushes": ["01", None, "4c", None, None], "push_then_op": ["01", None, "ac"], "truncated": ["05", None, None]}


@ob("C19", "script_parsers_on_push_templates", quick=[dict(t=t, which=w) for t in ("direct2", "push_then_op", "truncated") for w in ("script", "taproot")],
    thorough=[dict(t=t, which=w) for t in _PUSH_TEMPLATES for w in ("script", "taproot")],
    bound="scripts made of concrete push op codes whose length bytes and data bytes are symbolic (direct push, PUSHDATA1/2/4, two pushes, truncated push): "
          "script.parse and taproot.parse return or raise a library exception; what parses serializes back to bytes that parse to the same list",
    functions=["btclib.script.script.parse", "btclib.script.taproot.parse"], min_ok=0, timeout=600)
def script_push_templates(ex, t, which):
    items = [int(b, 16) if b is not None else ex.int(f"p{k:03d}", 0, 255) for k, b in enumerate(_PUSH_TEMPLATES[t])]
    if ex.concrete:
        raw = bytes(items)
    else:
        from sx.seq import mk_bytes
        raw = mk_bytes(items)
    mod = _script if which == "script" else _taproot
    try:
        parsed = mod.parse(raw)
    except LIB_ERRORS as x:
        return ex.refuse(type(x).__name__)
    return {"parsed_to_a_list": isinstance(parsed, list)}


# ------------------------------------------------------------------ boolean predicates over scriptPubKeys are total
from btclib.script import script_pub_key as _spk

_PREDICATES = [n for n in dir(_spk) if n.startswith("is_") and callable(getattr(_spk, n))]


@ob("C19", "script_pub_key_predicates_are_total", quick=[dict(pred=p, N=n) for p in _PREDICATES for n in (0, 1, 3, 4)],
    thorough=[dict(pred=p, N=n) for p in _PREDICATES for n in range(0, 7)],
    bound="every is_* predicate of script_pub_key on every byte string of N symbolic bytes: the answer is True or False, never an exception",
    functions=["btclib.script.script_pub_key._is_funct"], min_ok=1, timeout=600)
def spk_predicates(ex, pred, N):
    b = ex.bytes("b", N)
    r = getattr(_spk, pred)(b)
    return {"answers_a_bool": sor(r == True, r == False)}   # noqa: E712


_PK = bytes.fromhex("0279be667ef9dcbbac55a06295ce870b07029bfcdb2dce28d959f2815b16f81798")     # a valid compressed key (the generator)


@ob("C19", "script_pub_key_predicates_on_multisig_shapes", quick=[dict(pred=p, nkeys=k) for p in ("is_p2ms", "is_p2pk", "is_nulldata", "is_p2sh") for k in (1, 2)],
    thorough=[dict(pred=p, nkeys=k) for p in _PREDICATES for k in (1, 2, 3)],
    bound="scripts shaped like bare multisig -- OP_m, nkeys pushes of a valid 33-byte key, OP_n, OP_CHECKMULTISIG -- in which the first byte, every push-length byte and the last two bytes are symbolic "
          "(so pushes may be truncated or overlong): every predicate answers a bool",
    functions=["btclib.script.script_pub_key._is_funct"], min_ok=1, timeout=600)
def spk_predicates_multisig(ex, pred, nkeys):
    items = [ex.int("m", 0, 255)]
    for k in range(nkeys):
        items.append(ex.int(f"len{k}", 0, 255))
        items.extend(_PK)
    items += [ex.int("n", 0, 255), ex.int("last", 0, 255)]
    if ex.concrete:
        b = bytes(items)
    else:
        from sx.seq import mk_bytes
        b = mk_bytes(items)
    r = getattr(_spk, pred)(b)
    return {"answers_a_bool": sor(r == True, r == False)}   # noqa: E712
