"""C01 — number_theory helpers and the curve constructor's MOV check, modulus concrete and small, operand symbolic over several periods."""
from sx.api import ob, sand, sor, snot, ite, implies, iff

from btclib import number_theory as nt
from btclib.curves import curve as curve_mod
from btclib.exceptions import BTClibValueError

_PRIMES = [3, 5, 7, 13, 17, 41, 97, 113, 193, 257]      # p = 3 mod 4, p = 5 mod 8, p = 1 mod 8, large 2-adic part (97 = 3*2^5+1, 193 = 3*2^6+1, 257 = 2^8+1)
_MODULI = [1, 2, 9, 12, 13, 31, 35, 64]             # composites, prime powers, primes


def _in(x, values):
    return sor(*[x == v for v in values]) if values else False


@ob("C01", "modular_square_roots_are_roots_and_exist_exactly_for_residues", quick=[dict(p=p, fn=f) for p in (7, 13, 17, 97, 193) for f in ("mod_sqrt_var", "tonelli_var")],
    thorough=[dict(p=p, fn=f) for p in _PRIMES for f in ("mod_sqrt_var", "tonelli_var")],
    bound="prime p from a list covering every residue class the algorithms branch on (3 mod 4, 5 mod 8, 1 mod 8, high 2-adic valuation of p-1), operand a symbolic over -2p..3p: "
          "a root r with 0 <= r < p and r*r = a (mod p) is returned exactly when a is a square modulo p, BTClibValueError otherwise; legendre_symbol_var is the residue symbol",
    functions=["btclib.number_theory.mod_sqrt_var", "btclib.number_theory.tonelli_var", "btclib.number_theory.legendre_symbol_var"], min_ok=1, timeout=300)
def mod_sqrt(ex, p, fn):
    a = ex.int("a", -2 * p, 3 * p)
    squares = sorted({x * x % p for x in range(p)})
    is_square = _in(a % p, squares)
    leg = nt.legendre_symbol_var(a, p)
    claims = {"legendre_is_the_residue_symbol": ite(a % p == 0, leg == 0, ite(is_square, leg == 1, leg == -1))}
    try:
        r = getattr(nt, fn)(a, p)
    except BTClibValueError:
        claims["refused_only_non_residues"] = snot(is_square)
        return claims
    claims["root_is_a_root_in_range"] = sand(r >= 0, r < p, (r * r - a) % p == 0)
    return claims


@ob("C01", "modular_inverses_are_inverses_and_exist_exactly_for_units", quick=[dict(m=m) for m in (1, 2, 12, 13, 35)], thorough=[dict(m=m) for m in _MODULI],
    bound="modulus m from a list of primes, prime powers and composites, operand symbolic over -2m..3m: mod_inv, mod_inv_var and the two batch forms return the inverse in 0..m-1 "
          "exactly for the operands coprime to m and raise BTClibValueError for the others; xgcd_var returns Bezout coefficients of the gcd",
    functions=["btclib.number_theory.mod_inv", "btclib.number_theory.mod_inv_var", "btclib.number_theory.xgcd_var", "btclib.number_theory.mod_inv_batch"], min_ok=1, timeout=300)
def mod_inverse(ex, m):
    import math
    ex.concrete_randomness()
    a = ex.int("a", -2 * m, 3 * m)
    b = ex.int("b", -2 * m, 3 * m)
    units = [u for u in range(m) if math.gcd(u, m) == 1]
    unit = _in(a % m, units) if m > 1 else True
    claims = {}
    for name in ("mod_inv", "mod_inv_var"):
        try:
            inv = getattr(nt, name)(a, m)
            claims[name + "_is_the_inverse"] = sand(unit, inv >= 0, inv < m, (inv * a - 1) % m == 0)
        except BTClibValueError:
            claims[name + "_refuses_only_non_units"] = snot(unit)
    g, x, y = nt.xgcd_var(a, m)
    claims["xgcd_is_bezout"] = sand(a * x + m * y == g, _in(g, sorted({math.gcd(v, m) for v in range(-m, m + 1)} | {-math.gcd(v, m) for v in range(-m, m + 1)})))
    unit_b = _in(b % m, units) if m > 1 else True
    for name in ("mod_inv_batch", "mod_inv_batch_var"):
        try:
            invs = getattr(nt, name)([a, b], m)
            claims[name + "_are_the_inverses"] = sand(unit, unit_b, len(invs) == 2, (invs[0] * a - 1) % m == 0, (invs[1] * b - 1) % m == 0, invs[0] >= 0, invs[0] < m, invs[1] >= 0, invs[1] < m)
        except BTClibValueError:
            claims[name + "_refuses_only_when_one_is_no_unit"] = snot(sand(unit, unit_b))
    return claims


def _order(p, n):
    x, k = p % n, 1
    while x != 1:
        x = x * p % n
        k += 1
        if k > n:
            return None
    return k


@ob("C01", "mov_check_refuses_exactly_embedding_degrees_below_100", quick=[dict(n=n, span=4 if n < 150 else 1) for n in (7, 13, 101, 199)], thorough=[dict(n=n, span=4 if n < 150 else 2) for n in (7, 11, 13, 101, 197, 199)],
    bound="subgroup order n from a list of primes (incl. n = 1 mod 99 and n = 1 mod 98, 100), field size p symbolic over 2..4n (quick, n = 199: 2..n) not a multiple of n: "
          "_assert_mov_resistant refuses exactly when the multiplicative order of p modulo n is below 100",
    functions=["btclib.curves.curve._assert_mov_resistant"], min_ok=1, timeout=900)
def mov(ex, n, span):
    p = ex.int("p", 2, span * n)
    ex.assume(p % n != 0)
    weak = sorted(r for r in range(1, n) if (_order(r, n) or 1000) < 100)
    is_weak = _in(p % n, weak)
    try:
        curve_mod._assert_mov_resistant(p, n)
    except BTClibValueError:
        return {"refused_only_low_embedding_degree": is_weak}
    return {"accepted_only_high_embedding_degree": snot(is_weak)}
