"""C08 — BIP342 signature-opcode rules around the (stubbed) Schnorr verification: sizes, hash types, budget, key types."""
from sx.api import ob, sand, sor, snot, ite, implies, iff

from btclib.exceptions import BTClibValueError, ScriptError
from btclib.script.engine import tapscript
from btclib.script.engine.flags import ScriptFlag
from btclib.script.witness import Witness
from btclib.tx.out_point import OutPoint
from btclib.tx.tx import Tx
from btclib.tx.tx_in import TxIn
from btclib.tx.tx_out import TxOut

_VALID_HT = (0, 1, 2, 3, 0x81, 0x82, 0x83)


def _ctx():
    tx = Tx(2, 0, [TxIn(OutPoint(b"\x01" * 32, 0, check_validity=False), b"", 0xFFFFFFFE, Witness(), check_validity=False)],
            [TxOut(1000, b"\x51", check_validity=False)], check_validity=False)
    prevouts = [TxOut(2000, b"\x51\x20" + b"\x07" * 32, check_validity=False)]
    return tx, prevouts


@ob("C08", "tapscript_checksig_rules_vs_bip342", quick=[dict(siglen=s, keylen=k, discourage=d) for s in (0, 1, 63, 64, 65, 66) for k in (0, 1, 32, 33) for d in (0, 1)],
    bound="OP_CHECKSIG in tapscript with a signature of 0/1/63/64/65/66 symbolic bytes and a public key of 0/1/32/33 symbolic bytes, the sigops budget symbolic (0..120), "
          "the Schnorr verification of a 64-byte signature an arbitrary boolean (any other length verifies False, as the real one does): BIP342's rules (empty key fails, budget, signature must be 64 or 65 bytes, explicit hash type 0 refused, "
          "undefined hash types refused, unknown key types succeed unless discouraged, the pushed result)",
    stubs=["tapscript.ssa_verify answers an arbitrary boolean (the signature check is 256-bit arithmetic)", "tagged hashes uninterpreted"],
    functions=["btclib.script.engine.tapscript.op_checksig", "btclib.script.engine.tapscript.get_hashtype"], min_ok=0, timeout=300)
def tapscript_checksig(ex, siglen, keylen, discourage):
    sig = ex.bytes("sig", siglen)
    key = ex.bytes("key", keylen)
    budget = ex.int("budget", 0, 120)
    verdict = ex.bool("schnorr_ok")
    calls = []

    def fake_verify(msg_hash, pub_key, s):
        calls.append(len(s))
        if len(s) != 64:
            return False          # what the real verification answers for anything that is not 64 bytes
        return bool(verdict)
    ex.stub(tapscript.ssa_verify, fake_verify)
    flags = ScriptFlag.TAPROOT | (ScriptFlag.DISCOURAGE_UPGRADABLE_PUBKEYTYPE if discourage else ScriptFlag(0))
    tx, prevouts = _ctx()
    stack = [sig, key]
    try:
        left = tapscript.op_checksig(stack, b"\x20" + b"\x07" * 32 + b"\xac", 0xFFFFFFFF, tx, 0, prevouts, b"", budget, flags)
        ok = True
    except (BTClibValueError, ScriptError):
        ok = False
    # BIP342, "Rules for signature opcodes"
    ref_ok = True
    if keylen == 0:
        ref_ok = False
    elif siglen and bool(budget < 50):
        ref_ok = False
    elif keylen == 32:
        if siglen:
            if siglen not in (64, 65):
                ref_ok = False
            elif siglen == 65 and bool(sor(sig[64] == 0, snot(sor(*[sig[64] == h for h in _VALID_HT])))):
                ref_ok = False
            elif not bool(verdict):
                ref_ok = False
    elif discourage:
        ref_ok = False
    claims = {"same_verdict_as_bip342": ok == ref_ok}
    if ok and ref_ok:
        claims["pushes_one_iff_signature_non_empty"] = sand(len(stack) == 1, stack[0] == (b"\x01" if siglen else b""))
        claims["budget_charged_iff_signature_non_empty"] = left == (budget - 50 if siglen else budget)
    return claims
