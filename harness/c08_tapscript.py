"""C08 — BIP342 signature-opcode rules around the (stubbed) Schnorr verification: sizes, hash types, budget, key types."""
from sx.api import ob, sand, sor, snot, ite, implies, iff

from btclib.exceptions import BTClibValueError, ScriptError
from btclib.script.engine import tapscript
from btclib.script.engine.flags import ScriptFlag
from btclib.script.witness import Witness
from btclib.tx.out_point import OutPoint
from btclib.tx.tx import Tx
from btclib.tx.tx_in import TxIn
from btclib.tx.tx_out import TxOut

_VALID_HT = (0, 1, 2, 3, 0x81, 0x82, 0x83)


def _ctx():
    tx = Tx(2, 0, [TxIn(OutPoint(b"\x01" * 32, 0, check_validity=False), b"", 0xFFFFFFFE, Witness(), check_validity=False)],
            [TxOut(1000, b"\x51", check_validity=False)], check_validity=False)
    prevouts = [TxOut(2000, b"\x51\x20" + b"\x07" * 32, check_validity=False)]
    return tx, prevouts


@ob("C08", "tapscript_checksig_rules_vs_bip342", quick=[dict(siglen=s, keylen=k, discourage=d) for s in (0, 1, 63, 64, 65, 66) for k in (0, 1, 32, 33) for d in (0, 1)],
    bound="OP_CHECKSIG in tapscript with a signature of 0/1/63/64/65/66 symbolic bytes and a public key of 0/1/32/33 symbolic bytes, the sigops budget symbolic (0..120), "
          "the Schnorr verification of a 64-byte signature an arbitrary boolean (any other length verifies False, as the real one does): BIP342's rules (empty key fails, budget, signature must be 64 or 65 bytes, explicit hash type 0 refused, "
          "undefined hash types refused, unknown key types succeed unless discouraged, the pushed result)",
    stubs=["tapscript.ssa_verify answers an arbitrary boolean (the signature check is 256-bit arithmetic)", "tagged hashes uninterpreted"],
    functions=["btclib.script.engine.tapscript.op_checksig", "btclib.script.engine.tapscript.get_hashtype"], min_ok=0, timeout=300)
def tapscript_checksig(ex, siglen, keylen, discourage):
    sig = ex.bytes("sig", siglen)
    key = ex.bytes("key", keylen)
    budget = ex.int("budget", 0, 120)
    verdict = ex.bool("schnorr_ok")
    calls = []

    def fake_verify(msg_hash, pub_key, s):
        calls.append(len(s))
        if len(s) != 64:
            return False          # what the real verification answers for anything that is not 64 bytes
        return bool(verdict)
    ex.stub(tapscript.ssa_verify, fake_verify)
    flags = ScriptFlag.TAPROOT | (ScriptFlag.DISCOURAGE_UPGRADABLE_PUBKEYTYPE if discourage else ScriptFlag(0))
    tx, prevouts = _ctx()
    stack = [sig, key]
    try:
        left = tapscript.op_checksig(stack, b"\x20" + b"\x07" * 32 + b"\xac", 0xFFFFFFFF, tx, 0, prevouts, b"", budget, flags)
        ok = True
    except (BTClibValueError, ScriptError):
        ok = False
    # BIP342, "Rules for signature opcodes"
    ref_ok = True
    if keylen == 0:
        ref_ok = False
    elif siglen and bool(budget < 50):
        ref_ok = False
    elif keylen == 32:
        if siglen:
            if siglen not in (64, 65):
                ref_ok = False
            elif siglen == 65 and bool(sor(sig[64] == 0, snot(sor(*[sig[64] == h for h in _VALID_HT])))):
                ref_ok = False
            elif not bool(verdict):
                ref_ok = False
    elif discourage:
        ref_ok = False
    claims = {"same_verdict_as_bip342": ok == ref_ok}
    if ok and ref_ok:
        claims["pushes_one_iff_signature_non_empty"] = sand(len(stack) == 1, stack[0] == (b"\x01" if siglen else b""))
        claims["budget_charged_iff_signature_non_empty"] = left == (budget - 50 if siglen else budget)
    return claims


from btclib.script.engine import script as _escript


_DER_OK = bytes.fromhex("3006020101020101")          # r = 1, s = 1: canonical DER, low s
_DER_BAD = bytes.fromhex("3006020101020100ff")        # wrong inner length: not a valid encoding


def _checksig_params(tier):
    out = []
    for sig in ("empty", "der_ok", "der_bad"):
        for L in (0, 1, 33, 65):
            for segwit in (0, 1):
                for fl in ([], ["STRICTENC"], ["WITNESS_PUBKEYTYPE"], ["STRICTENC", "WITNESS_PUBKEYTYPE", "NULLFAIL"], ["DERSIG"], ["NULLFAIL"]):
                    if tier == "quick" and sig == "der_bad" and fl in ([], ["NULLFAIL"]):
                        continue
                    out.append(dict(sig=sig, L=L, segwit=segwit, fl=fl))
    for sig in ("empty", "der_ok", "der_bad"):     # the signature's own push sits in the script code
        for L in (1, 33):
            for segwit in (0, 1):
                for fl in (["CONST_SCRIPTCODE"], ["CONST_SCRIPTCODE", "STRICTENC"], ["STRICTENC"]):
                    out.append(dict(sig=sig, L=L, segwit=segwit, fl=fl, fad=1))
    return out


@ob("C08", "checksig_pre_tapscript_rules_vs_core", quick=_checksig_params("quick"), thorough=_checksig_params("thorough"),
    bound="legacy / witness-v0 OP_CHECKSIG plumbing with an empty signature, a canonical DER signature or a malformed one, each followed by a symbolic hash-type byte; "
          "public key of 0/1/33/65 bytes with a symbolic first byte; flag subsets of STRICTENC, WITNESS_PUBKEYTYPE, DERSIG, NULLFAIL, CONST_SCRIPTCODE (with the signature's push inside the script code); the ECDSA verification itself an arbitrary boolean "
          "(False for a key whose size does not match its header): the script fails exactly where Core's CheckSignatureEncoding / CheckPubKeyEncoding fail it, "
          "otherwise the result is the verification's",
    stubs=["script.dsa_verify answers an arbitrary boolean for well-sized keys"],
    functions=["btclib.script.engine.script.op_checksig", "btclib.script.engine.script.fix_signature", "btclib.script.engine.script.check_pub_key"], min_ok=0, timeout=300)
def checksig_rules(ex, sig, L, segwit, fl, fad=0):
    flags = ScriptFlag(0)
    for f in fl:
        flags |= ScriptFlag[f]
    ht = ex.bytes("ht", 1)
    if sig == "empty":
        signature = b""
    else:
        signature = (_DER_OK if sig == "der_ok" else _DER_BAD) + ht
    head = ex.bytes("k", 1) if L else b""
    key = head + b"\x11" * max(L - 1, 0)
    verdict = ex.bool("ecdsa_ok")
    if L:
        p = head[0]
        compressed = sand(L == 33, sor(p == 2, p == 3))
        uncompressed = sand(L == 65, p == 4)
        valid_size = sor(compressed, sand(L == 65, sor(p == 4, p == 6, p == 7)))
    else:
        compressed = uncompressed = valid_size = False

    def fake_verify(msg_hash, pub_key, s):
        return bool(sand(valid_size, verdict))
    ex.stub(_escript.dsa_verify, fake_verify)
    tx, prevouts = _ctx()
    try:
        script_bytes = (bytes([len(signature)]) + signature if fad else b"") + b"\xac"
        r = _escript.op_checksig(signature, [signature], key, script_bytes, 0, 2000, tx, 0, flags, bool(segwit))
        _escript.assert_nullfail(flags, bool(r), [signature], "OP_CHECKSIG")
        raised = False
    except (BTClibValueError, ScriptError):
        raised = True
    # Core: EvalChecksigPreTapscript
    strict_der = any(f in fl for f in ("DERSIG", "STRICTENC"))   # LOW_S not used here
    core_err = bool(fad and not segwit and "CONST_SCRIPTCODE" in fl)
    if sig != "empty" and not core_err:
        if strict_der and sig == "der_bad":
            core_err = True
        elif "STRICTENC" in fl:
            base = ht[0] & 0x7F
            core_err = sor(base < 1, base > 3)
    if not (type(core_err) is bool and core_err):
        enc_err = sor(sand("STRICTENC" in fl, snot(sor(compressed, uncompressed))), sand("WITNESS_PUBKEYTYPE" in fl, bool(segwit), snot(compressed)))
        core_err = sor(core_err, enc_err)
    success = False if sig != "der_ok" else sand(valid_size, verdict)
    if "NULLFAIL" in fl and sig != "empty":
        core_err = sor(core_err, snot(success))
    claims = {"script_fails_iff_core_fails_it": iff(raised, core_err)}
    if not raised:
        claims["result_is_the_verification"] = iff(r == True, success)   # noqa: E712
    return claims


# ------------------------------------------------------------------ tapscript programs (signature-free) against BIP342
from refs import core_script as _core
from btclib import hashes as _hashes

# IF NOTIF ELSE ENDIF 1 0 0xff(invalid) SUCCESS80 CAT(=SUCCESS126) VERIF RETURN NOP CHECKMULTISIG NOP1 DUP DROP push(1 byte) truncated-push CODESEPARATOR
_TAP_ALPHABET = ["63", "64", "67", "68", "51", "00", "ff", "50", "7e", "65", "6a", "61", "ae", "b0", "76", "75", "0107", "02", "ab", "fe"]


def _tap_params(tier):
    import itertools
    out = []
    for n in range(1, 4):
        for combo in itertools.product(_TAP_ALPHABET, repeat=n):
            if n == 3:
                interesting = sum(c in ("ff", "50", "7e", "fe", "02", "ae") for c in combo)
                if interesting == 0 or (tier == "quick" and not (combo[0] in ("63", "64", "00", "51", "ff", "02") and interesting == 1)):
                    continue
            out.append("".join(combo))
    if tier != "quick":
        for combo in itertools.product(["63", "64", "67", "68", "51", "00", "ff", "50", "ae", "02"], repeat=4):
            if "ff" in combo or "50" in combo:
                out.append("".join(combo))
    return [dict(program=p, lens=[1] if i % 3 else [1, 1], discourage=int(i % 2)) for i, p in enumerate(out)]


@ob("C08", "tapscript_programs_vs_bip342", quick=_tap_params("quick"), thorough=_tap_params("thorough"),
    bound="every tapscript of 1..3 (thorough: 4) items from {IF NOTIF ELSE ENDIF 1 0 0xff OP_SUCCESS80 OP_CAT(=OP_SUCCESS126) VERIF RETURN NOP CHECKMULTISIG NOP1 DUP DROP "
          "push1 truncated-push CODESEPARATOR 0xfe} run by verify_script_path_vc0 on one or two symbolic one-byte witness elements, DISCOURAGE_OP_SUCCESS on and off: "
          "accepted exactly when BIP342's execution (OP_SUCCESSx pre-scan, MINIMALIF as consensus, no op limit, exactly one true element at the end) accepts",
    functions=["btclib.script.engine.tapscript.verify_script_path_vc0", "btclib.script.engine.tapscript._run_ops", "btclib.script.taproot.parse"],
    outside=["signature opcodes in tapscript programs (covered by tapscript_checksig_rules_vs_bip342)", "programs longer than 4 items"], min_ok=1, timeout=300)
def tapscript_programs(ex, program, lens, discourage):
    script = bytes.fromhex(program)
    flags = ScriptFlag.DISCOURAGE_OP_SUCCESS if discourage else ScriptFlag(0)
    init = [ex.bytes(f"s{k}_", n) for k, n in enumerate(lens)]
    tx, prevouts = _ctx()
    lib_stack = list(init)
    try:
        tapscript.verify_script_path_vc0(script, lib_stack, prevouts, tx, 0, b"", 100, flags)
        lib_ok = True
    except (ScriptError, BTClibValueError):
        lib_ok = False
    ref_stack = list(init)
    try:
        _core.execute_tapscript(ref_stack, script, discourage_op_success=bool(discourage), hashes={})
        ref_ok = True
    except _core.ScriptErr:
        ref_ok = False
    return {"same_verdict_as_bip342": lib_ok == ref_ok}


# ------------------------------------------------------------------ BIP342 codesep_pos: the opcode position of the last executed OP_CODESEPARATOR
_CS_ITEMS = {"A": ("515188", 3, None), "B": ("51519d", 3, None), "N": ("61", 1, None), "P": ("010775", 2, None), "S": ("ab", 1, "always"), "I": ("63ab68", 3, "cond"),
             "V": ("5169", 2, None), "X": ("0051ba75", 4, None)}     # V: 1 VERIFY; X: <empty sig> 1(as key) CHECKSIGADD DROP -- not used with the stubbed checksig


def _cs_params(tier):
    import itertools
    names = ["A", "B", "N", "P", "S", "I", "V"]
    out = []
    for n in (1, 2, 3) if tier == "quick" else (1, 2, 3, 4):
        for combo in itertools.product(names, repeat=n):
            if not any(c in ("S", "I") for c in combo):
                continue
            if tier == "quick" and n == 3 and not any(c in ("A", "B", "V") for c in combo[:2]):
                continue
            if n == 4 and sum(c in ("S", "I") for c in combo) != 2:
                continue
            out.append(dict(program="".join(combo)))
    return out


@ob("C08", "tapscript_codesep_pos_is_the_opcode_position", quick=_cs_params("quick"), thorough=_cs_params("thorough"),
    bound="tapscripts made of 1..3 (thorough 4) items from {1 1 EQUALVERIFY, 1 1 NUMEQUALVERIFY, NOP, push DROP, 1 VERIFY, CODESEPARATOR, IF CODESEPARATOR ENDIF with a symbolic condition} followed by "
          "<32-byte key> CHECKSIG: the codesep_pos handed to the signature check is BIP342's -- the opcode position (a push counts one, compound *VERIFY opcodes count one) of the last "
          "executed OP_CODESEPARATOR, 0xffffffff if none",
    stubs=["tapscript.op_checksig records its codesep_pos argument and pushes true (the signature check proper is tapscript_checksig_rules_vs_bip342's subject)"],
    functions=["btclib.script.engine.tapscript._run_ops", "btclib.script.engine.tapscript.verify_script_path_vc0"], min_ok=1, timeout=300)
def codesep_pos(ex, program):
    script = b""
    pos = 0
    expected = 0xFFFFFFFF
    conds = []
    for c in program:
        hx, nops, eff = _CS_ITEMS[c]
        script += bytes.fromhex(hx)
        if eff == "always":
            expected = pos
        elif eff == "cond":
            cnd = ex.bool(f"cond{len(conds)}")
            conds.append(cnd)
            expected = ite(cnd, pos + 1, expected)
        pos += nops
    script += b"\x20" + b"\x07" * 32 + b"\xac"
    seen = []

    def fake_checksig(stack, script_bytes, codesep_pos, tx, i, prevouts, annex, budget, flags, precomputed=None, hash_types=None):
        stack.pop()
        stack.pop()
        seen.append(codesep_pos)
        stack.append(b"\x01")
        return budget
    ex.stub(tapscript.op_checksig, fake_checksig)
    # the IFs consume their conditions from the top of the stack, first IF first
    stack = [b"\x05" * 64] + [(b"\x01" if bool(c) else b"") for c in reversed(conds)]
    tx, prevouts = _ctx()
    try:
        tapscript.verify_script_path_vc0(script, stack, prevouts, tx, 0, b"", 1000, ScriptFlag(0))
    except (ScriptError, BTClibValueError):
        return {"honest_script_runs": False}
    return {"one_signature_check": len(seen) == 1, "codesep_pos_is_bip342s": (seen[0] == expected) if seen else False}


# ------------------------------------------------------------------ the v1 arm of VerifyWitnessProgram: annex, budget, key path vs script path, leaf version
from btclib.script import engine as _engine


def _ser_size(stack):
    n = 1            # CompactSize of the element count (< 253 elements here)
    for e in stack:
        n += (1 if len(e) < 253 else 3) + len(e)
    return n


@ob("C08", "taproot_arm_dispatch_and_sigops_budget", quick=[dict(n=n, annex=a, big=b) for n in (0, 1, 2, 3) for a in (0, 1) for b in (0, 1)],
    bound="witness stacks of 0..3 elements plus an optional annex (first byte 0x50, optionally 300 bytes long), the control block's first byte symbolic, DISCOURAGE_UPGRADABLE_TAPROOT_VERSION on and off "
          "(symbolic): empty stack refused; one element -> key path; otherwise script path with the script and control block taken from the end, the annex handed on, leaf versions other than 0xc0 "
          "accepted unless discouraged, and the budget handed to the tapscript is 50 + the serialized size of the whole witness, annex included (BIP342)",
    stubs=["taproot_unwrap_script answers as if the commitment verified (C12 covers it); verify_key_path and verify_script_path_vc0 record their arguments"],
    functions=["btclib.script.engine._verify_taproot", "btclib.script.engine.taproot_get_annex"], min_ok=1, timeout=300)
def taproot_arm(ex, n, annex, big):
    b0 = ex.int("control0", 0, 255)
    discourage = ex.bool("discourage")
    elements = [bytes([0x10 + k]) * (3 + k) for k in range(n)]
    if n >= 2:
        elements[-1] = bytes([b0]) + b"\x09" * 32        # control block
    annex_b = (b"\x50" + b"\xaa" * (299 if big else 2)) if annex else b""
    full = elements + ([annex_b] if annex else [])
    witness = Witness(full, check_validity=False)
    calls = []

    def fake_unwrap(script, stack):
        return stack[-2], stack[:-2], stack[-1][0] & 0xFE

    def fake_key_path(script, stack, prevouts, tx, i, annex_, precomputed=None, hash_types=None):
        calls.append(("key", list(stack), annex_, None))

    def fake_script_path(script_bytes, stack, prevouts, tx, i, annex_, budget, flags, precomputed=None, hash_types=None):
        calls.append(("script", list(stack), annex_, budget, script_bytes))
    ex.stub(_engine.taproot_unwrap_script, fake_unwrap)
    ex.stub(tapscript.verify_key_path, fake_key_path)
    ex.stub(tapscript.verify_script_path_vc0, fake_script_path)
    tx, prevouts = _ctx()
    flags = ScriptFlag.DISCOURAGE_UPGRADABLE_TAPROOT_VERSION if discourage else ScriptFlag(0)
    # a one-element stack that looks like an annex is still the key path's signature: BIP341 needs at least two elements for an annex
    try:
        _engine._verify_taproot(b"\x51\x20" + b"\x07" * 32, witness, prevouts, tx, 0, flags, None, None)
        ok = True
    except (BTClibValueError, ScriptError):
        ok = False
    # BIP341: with at least two elements, a last element starting with 0x50 is the annex -- also when it was meant as a control block
    has_annex = len(full) >= 2 and bool(full[-1][0] == 0x50)
    stack = full[:-1] if has_annex else full
    want_annex = full[-1] if has_annex else b""
    if len(stack) == 0:
        return {"empty_stack_refused": not ok}
    if len(stack) == 1:
        return {"key_path_taken": sand(ok, len(calls) == 1, calls[0][0] == "key" if calls else False, (calls[0][2] == want_annex) if calls else False)}
    leaf_version = stack[-1][0] & 0xFE
    if not ok:
        return {"refused_only_a_discouraged_leaf_version": sand(leaf_version != 0xC0, discourage)}
    if not calls:
        return {"unknown_leaf_version_accepted_without_running": sand(leaf_version != 0xC0, snot(discourage))}
    c = calls[0]
    return {"script_path_arguments": sand(leaf_version == 0xC0, c[0] == "script", c[1] == stack[:-2], c[2] == want_annex, c[4] == stack[-2]),
            "budget_is_50_plus_whole_witness_size": c[3] == 50 + _ser_size(full)}
