"""C06 — text encodings: bech32/bech32m against the BIP173/350 reference, Base58(Check), address <-> scriptPubKey."""
from sx.api import ob, sand, sor, snot, ite, implies, iff
from refs import bip173

from btclib import b32, base58, bech32
from btclib.exceptions import BTClibValueError, BTClibTypeError


def _text(ex, prefix, n, lo=33, hi=126):
    """prefix + n symbolic characters, as the library's input type (str)."""
    if ex.concrete:
        return prefix + ex.str("c", n, lo, hi)
    from sx.seq import SymStr
    return SymStr([ord(ch) for ch in prefix] + ex.str("c", n, lo, hi).items)


def _codes(s):
    return [ord(ch) for ch in s] if type(s) is str else list(s.items)


@ob("C06", "segwit_address_roundtrip", quick=[dict(L=l) for l in (2, 20, 32, 40)], thorough=[dict(L=l) for l in range(2, 41)],
    bound="witness program of L symbolic bytes, witness version symbolic 0..16, mainnet hrp: address_from_witness then witness_from_address is the identity; "
          "bech32 for version 0 and bech32m otherwise",
    functions=["btclib.b32.address_from_witness", "btclib.b32.witness_from_address", "btclib.bech32.encode", "btclib.bech32.decode", "btclib.b32.power_of_2_base_conversion"],
    timeout=900, weight=4, min_ok=1)
def segwit_roundtrip(ex, L):
    prog = ex.bytes("p", L)
    ver = ex.int("ver", 0, 16)
    try:
        addr = b32.address_from_witness(ver, prog, "mainnet")
    except BTClibValueError:
        return ex.refuse("BTClibValueError", only_v0_with_bad_length=sand(ver == 0, L != 20, L != 32))
    v2, p2, net = b32.witness_from_address(addr)
    # the checksum constant is bech32 for version 0 and bech32m otherwise: the right one verifies, the other one does not
    right, wrong = (bip173.BECH32_CONST, bip173.BECH32M_CONST) if bool(ver == 0) else (bip173.BECH32M_CONST, bip173.BECH32_CONST)
    try:
        bech32.decode(addr, right)
        right_ok = True
    except BTClibValueError:
        right_ok = False
    try:
        bech32.decode(addr, wrong)
        wrong_ok = True
    except BTClibValueError:
        wrong_ok = False
    return {"decode_of_encode": sand(v2 == ver, p2 == prog, net == "mainnet"),
            "checksum_constant_by_version": sand(right_ok, snot(wrong_ok)),
            "length": len(addr) == 3 + 1 + (8 * L + 4) // 5 + 6}


@ob("C06", "segwit_decoder_accepts_exactly_bip173_350", quick=[dict(K=k) for k in (6, 7, 8)], thorough=[dict(K=k) for k in range(0, 11)],
    bound="every string 'bc1' + K symbolic characters (each any printable ASCII 33..126): witness_from_address accepts exactly the strings the BIP173/BIP350 reference decoder accepts, with the same version and program",
    functions=["btclib.b32.witness_from_address", "btclib.bech32._decode", "btclib.bech32.decode", "btclib.b32.power_of_2_base_conversion"],
    outside=["arbitrary-ASCII strings with more than 10 characters after the separator (charset-only strings go to 32: see segwit_decoder_on_charset_strings)", "non-ASCII text"],
    timeout=1500, weight=8, min_ok=0, query_timeout_ms=180000)
def segwit_decoder(ex, K):
    s = _text(ex, "bc1", K)
    want = bip173.decode_segwit_address("bc", _codes(s))
    try:
        ver, prog, net = b32.witness_from_address(s)
    except BTClibValueError:
        return ex.refuse("BTClibValueError", refused_only_what_the_reference_refuses=want is None)
    if want is None:
        return {"accepted_only_what_the_reference_accepts": False}
    wv, wp = want
    same = sand(ver == wv, len(prog) == len(wp), *[a == b for a, b in zip(prog, wp)]) if len(prog) == len(wp) else False
    return {"same_version_and_program": same, "network": net == "mainnet"}


@ob("C06", "base58_payload_roundtrip", quick=[dict(L=l) for l in range(0, 3)], thorough=[dict(L=l) for l in range(0, 4)],
    bound="payload of L symbolic bytes, L = 0..2 (thorough 0..3), leading zero bytes included: _b58decode(_b58encode(v)) == v",
    functions=["btclib.base58._b58encode", "btclib.base58._b58decode"], timeout=900, weight=3,
    outside=["byte-level round trips of payloads above 3 bytes (the digit count and the byte count both depend on the magnitude: a 25-byte and even an 8-byte payload did not finish in 15 min); "
             "the long case is decided digit-wise instead: base58_decoded_integer_is_the_positional_value and base58_encoder_writes_the_digits_of_its_integer", "Base58Check's checksum (a hash)"])
def base58_payload(ex, L):
    v = ex.bytes("v", L)
    enc = base58._b58encode(v)
    back = base58._b58decode(enc)
    return {"raw_roundtrip": sand(len(back) == L, back == v) if len(back) == L else False}


@ob("C06", "base58_string_is_canonical", quick=[dict(N=n) for n in range(0, 3)], thorough=[dict(N=n) for n in range(0, 3)],
    bound="every byte string of N = 0..2 symbolic characters: if _b58decode accepts it, _b58encode of the result is the same string (one string per payload)",
    functions=["btclib.base58._b58decode", "btclib.base58._b58encode"], timeout=900, weight=3, min_ok=0)
def base58_string(ex, N):
    s = ex.bytes("s", N)
    try:
        v = base58._b58decode(s)
    except BTClibValueError:
        return ex.refuse("BTClibValueError")
    enc = base58._b58encode(v)
    return {"reencodes_to_itself": sand(len(enc) == N, enc == s) if len(enc) == N else False}


@ob("C06", "segwit_decoder_on_charset_strings", quick=[dict(K=k) for k in (7, 9, 11, 15, 16)], thorough=[dict(K=k) for k in range(6, 33)],
    bound="every string 'bc1' + K characters each drawn from the 32-character bech32 alphabet (symbolic 5-bit symbols, lower case): the library and the BIP173/350 "
          "reference agree on accept / refuse and on (version, program) -- this is where padding, program-length and checksum-constant rules live; K up to 16 (thorough 32)",
    functions=["btclib.b32.witness_from_address", "btclib.b32.power_of_2_base_conversion", "btclib.bech32.decode"],
    timeout=1500, weight=8, min_ok=0, query_timeout_ms=180000)
def segwit_charset(ex, K):
    syms = [ex.int(f"d{i:03d}", 0, 31) for i in range(K)]
    table = bech32._ALPHABET
    s = "bc1" + "".join(table[d] for d in syms)
    codes = [ord("b"), ord("c"), ord("1")] + [bip173_code(d) for d in syms]
    want = bip173.decode_segwit_address("bc", codes)
    try:
        ver, prog, net = b32.witness_from_address(s)
    except BTClibValueError:
        return ex.refuse("BTClibValueError", refused_only_what_the_reference_refuses=want is None)
    if want is None:
        return {"accepted_only_what_the_reference_accepts": False}
    wv, wp = want
    same = sand(ver == wv, *[a == b for a, b in zip(prog, wp)]) if len(prog) == len(wp) else False
    return {"same_version_and_program": same, "network": net == "mainnet"}


def bip173_code(d):
    """Code point of the bech32 character for the 5-bit symbol d (table look-up; keeps its provenance in symbolic mode)."""
    return ord(bip173.CHARSET[d]) if type(d) is int else [ord(c) for c in bip173.CHARSET][d]


def _lookalikes():
    """Non-ASCII code points that Python's case mapping sends into ASCII (the way U+212A KELVIN SIGN lowers to 'k')."""
    out = []
    for c in range(128, 0x30000):
        ch = chr(c)
        lo, up = ch.lower(), ch.upper()
        if (len(lo) == 1 and ord(lo) < 128) or (len(up) == 1 and ord(up) < 128):
            out.append(c)
    return out


_LOOKALIKES = _lookalikes()


@ob("C06", "segwit_decoder_refuses_non_ascii", quick=[dict(cp=c, K=11) for c in _LOOKALIKES], thorough=[dict(cp=c, K=k) for c in _LOOKALIKES for k in (11, 12, 16, 20)],
    bound="strings 'bc1' / 'BC1' + K characters of the bech32 alphabet (symbolic, all lower or all upper case) in which one character at a symbolic position is replaced by a non-ASCII "
          "code point that Python's str.lower()/upper() maps into ASCII (every such code point below U+30000; e.g. U+212A KELVIN SIGN): BIP173 refuses any character outside 33..126",
    functions=["btclib.bech32._decode", "btclib.b32.witness_from_address"], timeout=600, min_ok=0)
def segwit_non_ascii(ex, cp, K):
    upper = ex.bool("upper")
    pos = ex.concretize(ex.int("pos", 0, K - 1))
    syms = [ex.int(f"d{i:03d}", 0, 31) for i in range(K)]
    low = [ord(c) for c in bip173.CHARSET]
    upp = [ord(c.upper()) for c in bip173.CHARSET]
    if bool(upper):
        codes = [ord("B"), ord("C"), ord("1")] + [upp[d] for d in syms]
    else:
        codes = [ord("b"), ord("c"), ord("1")] + [low[d] for d in syms]
    codes[3 + pos] = cp
    if ex.concrete:
        s = "".join(chr(c) for c in codes)
    else:
        from sx.seq import SymStr
        s = SymStr(codes)
    try:
        b32.witness_from_address(s)
    except BTClibValueError:
        return ex.refuse("BTClibValueError")
    return {"non_ascii_string_refused": False}


# ------------------------------------------------------------------ Base58 of long strings: the positional value, digit by digit (linear in the digits)
_B58 = b"123456789ABCDEFGHJKLMNPQRSTUVWXYZabcdefghijkmnopqrstuvwxyz"


@ob("C06", "base58_decoded_integer_is_the_positional_value", quick=[dict(L=l) for l in (1, 9, 10, 11, 20, 21, 30, 34, 51, 52, 111, 112)], thorough=[dict(L=l) for l in (1, 9, 10, 11, 19, 20, 21, 29, 30, 31, 34, 40, 51, 52, 111, 112)],
    bound="strings of L base58 characters (every digit symbolic over 0..57, any leading digit): _b58decode_to_int is the sum of digit * 58^position -- a linear fact about the digits, decided over "
          "the integers; L spans the chunk boundaries of the decoder (10, 20, 30) and the lengths of addresses (34), WIFs (51, 52) and extended keys (111, 112)",
    functions=["btclib.base58._b58decode_to_int"], min_ok=1, timeout=600)
def base58_positional(ex, L):
    ex.prefer_int()
    digits = [ex.int(f"d{i:03d}", 0, 57) for i in range(L)]
    if ex.concrete:
        text = bytes(_B58[d] for d in digits)
    else:
        from sx.seq import mk_bytes
        text = mk_bytes([_B58[d] for d in digits])
    got = base58._b58decode_to_int(text)
    want = 0
    for d in digits:
        want = want * 58 + d
    return {"positional_value": got == want}



@ob("C06", "base58_encoder_writes_the_digits_of_its_integer", quick=[dict(L=l) for l in (1, 2, 10, 11, 21, 34)], thorough=[dict(L=l) for l in (1, 2, 9, 10, 11, 20, 21, 30, 31, 34)],
    bound="every integer with exactly L base58 digits (58^(L-1) <= i < 58^L, symbolic; L = 1 includes 0): _b58encode_from_int writes L characters of the alphabet, no leading '1', "
          "whose positional value is i (quotients and remainders by 58 and 58^10 as integer division witnesses)",
    functions=["btclib.base58._b58encode_from_int"], min_ok=1, timeout=600)
def base58_encoder(ex, L):
    ex.prefer_int()
    lo = 0 if L == 1 else 58 ** (L - 1)
    i = ex.int("i", lo, 58 ** L - 1)
    text = base58._b58encode_from_int(i)
    idx = [_B58.find(bytes([c])) if type(c) is int else None for c in text] if ex.concrete else None
    claims = {"length_is_the_digit_count": len(text) == L}
    if len(text) != L:
        return claims
    # digit value of every character, through the library-independent alphabet table
    inv = [255] * 256
    for k, ch in enumerate(_B58):
        inv[ch] = k
    value = 0
    ok = True
    for c in text:
        d = inv[c]
        ok = sand(ok, d != 255)
        value = value * 58 + d
    claims["characters_are_of_the_alphabet"] = ok
    claims["positional_value_is_the_integer"] = value == i
    claims["no_leading_zero_digit"] = sor(L == 1, inv[text[0]] != 0)
    return claims

