"""C11 — the Combiner on whole PSBTs: operands of one transaction whose field values are symbolic."""
import itertools

from sx.api import ob, sand, sor, snot, ite, implies, iff

from btclib.bip32.key_origin import BIP32KeyOrigin
from btclib.exceptions import BTClibValueError
from btclib.psbt.psbt import Psbt, combine
from btclib.psbt.psbt_in import PsbtIn
from btclib.psbt.psbt_out import PsbtOut
from btclib.script.witness import Witness
from btclib.tx.out_point import OutPoint
from btclib.tx.tx import Tx
from btclib.tx.tx_in import TxIn
from btclib.tx.tx_out import TxOut

_G = bytes.fromhex("79be667ef9dcbbac55a06295ce870b07029bfcdb2dce28d959f2815b16f81798")
_G2 = bytes.fromhex("c6047f9441ed7d6d3045406e95c07cd85c778e4b8cef3ca7abac09b95c709ee5")
_PUBS = [b"\x02" + _G, b"\x02" + _G2]
_SPK = b"\x00\x14" + b"\x21" * 20
# the transaction whose output 0 the psbt spends (non_witness_utxo must hash to the outpoint)
_PREV = Tx(2, 0, [TxIn(OutPoint(b"\x09" * 32, 1, check_validity=False), b"\x51", 0xFFFFFFFF, Witness(), check_validity=False)],
           [TxOut(5000, _SPK, check_validity=False)], check_validity=False)


def _sig(ex, tag):
    """A structurally valid partial signature: DER with one symbolic byte inside s and a symbolic hash-type byte
    (r stays concrete: validation lifts it to a curve point, which is 256-bit modular exponentiation)."""
    r = _G
    s = b"\x22" + ex.bytes(tag + "s", 1) + b"\x22" * 30
    return b"\x30\x44\x02\x20" + r + b"\x02\x20" + s + ex.bytes(tag + "ht", 1)


def _origin(ex, tag):
    # two bits only: validation puts the serialized origins in a set (hashing = one path per value)
    return BIP32KeyOrigin(bytes([ex.int(tag + "fp", 0, 3)]) + b"\x02\x03\x04", [0x8000002C, 7], check_validity=False)


# what operand k holds, per scenario; keys are concrete, values symbolic
def _fill(ex, scenario, k, inp, out, glob):
    if scenario == "disjoint_sigs":            # each signer adds its own partial signature and an unknown
        inp["partial_sigs"] = {_PUBS[k % 2]: _sig(ex, f"p{k}")}
        inp["unknown"] = {b"\xf0" + bytes([k]): ex.bytes(f"u{k}", 2)}
    elif scenario == "shared_and_new":         # both hold the same pair (same symbolic value), one adds another
        inp["partial_sigs"] = {_PUBS[0]: _sig(ex, "pshared")}
        if k == 1:
            inp["partial_sigs"][_PUBS[1]] = _sig(ex, "pnew")
        out["unknown"] = {b"\xf1": ex.bytes("oshared", 2)}
        glob["unknown"] = {b"\xf2" + bytes([k]): ex.bytes(f"g{k}", 1)}
    elif scenario == "updater_fields":         # an Updater's copy: utxos, scripts, derivations (nested containers)
        if k == 1:
            inp["non_witness_utxo"] = _PREV
            inp["witness_utxo"] = TxOut(5000, _SPK, check_validity=False)
            inp["hd_key_paths"] = {_PUBS[0]: _origin(ex, "ih")}
            inp["taproot_hd_key_paths"] = {_G: ([ex.bytes("leaf", 1) + b"\x07" * 31], _origin(ex, "it"))}
            out["hd_key_paths"] = {_PUBS[1]: _origin(ex, "oh")}
            out["taproot_hd_key_paths"] = {_G2: ([], _origin(ex, "ot"))}
        else:
            inp["sig_hash_type"] = ex.int("sht", 0, 3)
    elif scenario == "optional_ints":
        if k == 0:
            inp["sig_hash_type"] = ex.int("sht", 0, 3)
        else:
            inp["sha256_preimages"] = {}
            inp["redeem_script"] = ex.bytes("rs", 1) + b"\x51"
            out["witness_script"] = ex.bytes("ws", 1) + b"\x51"
    else:
        raise ValueError(scenario)


def _operand(ex, scenario, k, version):
    inp, out, glob = {}, {}, {}
    _fill(ex, scenario, k, inp, out, glob)
    if version == 2:
        pin = PsbtIn(previous_tx_id=_PREV.id, output_index=0, **inp, check_validity=False)
        pout = PsbtOut(amount=4000, script_pub_key=_SPK, **out, check_validity=False)
        return Psbt(2, [pin], [pout], 2, {}, fallback_lock_time=None, **glob, check_validity=False)
    tx = Tx(2, 0, [TxIn(OutPoint(_PREV.id, 0, check_validity=False), b"", 0xFFFFFFFF, Witness(), check_validity=False)], [TxOut(4000, _SPK, check_validity=False)], check_validity=False)
    p = Psbt.from_tx(tx, check_validity=False)
    for key, v in inp.items():
        setattr(p.inputs[0], key, v)
    for key, v in out.items():
        setattr(p.outputs[0], key, v)
    for key, v in glob.items():
        setattr(p, key, v)
    return p


_MAPS_IN = ["partial_sigs", "unknown", "hd_key_paths", "taproot_hd_key_paths", "sha256_preimages"]
_MAPS_OUT = ["unknown", "hd_key_paths", "taproot_hd_key_paths"]
_SINGLE_IN = ["non_witness_utxo", "witness_utxo", "redeem_script", "witness_script", "sig_hash_type"]


def _contains_all(result, operand):
    """Every key-value pair of the operand is in the result."""
    ok = True
    for (rm, om, maps, singles) in ((result.inputs[0], operand.inputs[0], _MAPS_IN, _SINGLE_IN), (result.outputs[0], operand.outputs[0], _MAPS_OUT, ["witness_script"]),
                                    (result, operand, ["unknown", "hd_key_paths"], [])):
        for f in maps:
            for key, v in getattr(om, f).items():
                got = getattr(rm, f)
                ok = sand(ok, (key in got) and got[key] == v)
        for f in singles:
            v = getattr(om, f)
            if v is not None and (type(v) is int or v):
                ok = sand(ok, getattr(rm, f) == v)
    return ok


_IMMUTABLE = (bytes, str, int, float, bool, type(None), tuple, frozenset)


def _mutable_ids(obj, seen, depth=0):
    """ids of every mutable object reachable from obj (containers and class instances), by structure."""
    if depth > 12 or isinstance(obj, (bytes, str, int, float, bool, type(None))) or type(obj).__name__ in ("SymBytes", "SymInt", "SymBool", "SymStr"):
        return
    if isinstance(obj, (tuple, frozenset)):
        for x in obj:
            _mutable_ids(x, seen, depth + 1)
        return
    if id(obj) in seen:
        return
    if isinstance(obj, (list, dict, set, bytearray)) or hasattr(obj, "__dict__") or hasattr(obj, "__slots__"):
        if type(obj).__module__.startswith(("btclib", "builtins")) and not isinstance(obj, type):
            if getattr(type(obj), "__dataclass_params__", None) is None or not type(obj).__dataclass_params__.frozen:
                seen[id(obj)] = type(obj).__name__
    if isinstance(obj, dict):
        for k2, v in obj.items():
            _mutable_ids(k2, seen, depth + 1)
            _mutable_ids(v, seen, depth + 1)
    elif isinstance(obj, (list, set)):
        for x in obj:
            _mutable_ids(x, seen, depth + 1)
    elif hasattr(obj, "__dict__") and type(obj).__module__.startswith("btclib"):
        for v in vars(obj).values():
            _mutable_ids(v, seen, depth + 1)


def _params(tier):
    out = []
    for sc in ("disjoint_sigs", "shared_and_new", "updater_fields", "optional_ints"):
        for v in (0, 2):
            out.append(dict(scenario=sc, version=v, n=2))
            if tier == "thorough":
                out.append(dict(scenario=sc, version=v, n=3))
    return out


@ob("C11", "combine_is_lossless_order_independent_and_fresh", quick=_params("quick"), thorough=_params("thorough"),
    bound="2 (thorough also 3) copies of a one-input one-output PSBT (v0 and v2) populated per scenario -- disjoint partial signatures and unknowns; a shared pair plus a new one; an Updater's copy with utxos, "
          "derivations and taproot derivations; optional integers and scripts -- with the values' bytes / integers symbolic: every order of combine gives an equal PSBT holding every key-value pair of every operand, "
          "combining a PSBT with itself changes nothing, the operands serialize as before, and the result shares no mutable object with any operand",
    functions=["btclib.psbt.psbt.combine", "btclib.psbt.psbt._combine_field", "btclib.psbt.psbt._combine_optional_field"],
    outside=["conflicting operands (same key, different values)", "more than one input/output, musig2 and silent-payment maps", "keys of the maps are concrete"], min_ok=1, timeout=600)
def whole_combine(ex, scenario, version, n):
    ops = [_operand(ex, scenario, k % 2 if n == 2 else min(k, 1) if scenario != "disjoint_sigs" else k % 2, version) for k in range(n)]
    before = [p.serialize(check_validity=False) for p in ops]
    results = []
    try:
        for perm in itertools.permutations(range(n)):
            results.append(combine([ops[i] for i in perm]))
        same_again = combine([ops[0], ops[0]])
    except BTClibValueError as e:
        return ex.refuse(type(e).__name__, never=False)
    claims = {"every_order_gives_the_same_psbt": sand(*[r == results[0] for r in results[1:]]),
              "every_pair_of_every_operand_is_kept": sand(*[_contains_all(results[0], p) for p in ops]),
              "self_combine_changes_nothing": same_again == ops[0],
              "operands_are_left_unchanged": sand(*[p.serialize(check_validity=False) == b for p, b in zip(ops, before)])}
    shared = []
    for r in results[:2]:
        mine = {}
        _mutable_ids(r, mine)
        for k, p in enumerate(ops):
            theirs = {}
            _mutable_ids(p, theirs)
            shared.extend(f"{mine[i]}@operand{k}" for i in mine if i in theirs)
    claims["result_shares_no_mutable_object_with_an_operand"] = not shared
    return claims


# ------------------------------------------------------------------ BIP370 lock time and version conversion
def _bip370_lock_time(req, fallback, fallback_present):
    """BIP370 "Determining Lock Time" on concrete presence patterns with symbolic values. req: list of (height|None, time|None)."""
    requiring = [(h, t) for h, t in req if h is not None or t is not None]
    if not requiring:
        return fallback if fallback_present else 0
    if all(h is not None for h, _ in requiring):
        m = requiring[0][0]
        for h, _ in requiring[1:]:
            m = ite(h > m, h, m)
        return m
    if all(t is not None for _, t in requiring):
        m = requiring[0][1]
        for _, t in requiring[1:]:
            m = ite(t > m, t, m)
        return m
    return None


_PRESENCE = [(0, 0), (1, 0), (0, 1), (1, 1)]


@ob("C11", "version_conversion_keeps_the_unsigned_transaction", quick=[dict(pres=[a, b], fb=f, seqs=s) for a in range(4) for b in range(4) for f in (0, 1) for s in (0, 1) if (a + b + f + s) % 2 == 0],
    thorough=[dict(pres=[a, b], fb=f, seqs=s) for a in range(4) for b in range(4) for f in (0, 1) for s in (0, 1)],
    bound="a version 2 PSBT with two inputs, each holding a required height and/or time lock (presence pattern concrete, values symbolic over their whole ranges), an optional fallback lock time, "
          "optional sequences and a symbolic transaction version: its lock time is BIP370's, and to_v0 / to_v2 keep version, lock time, every sequence and outpoint and every output; every conversion -- to the version already held included -- returns an object that shares nothing mutable with its source",
    functions=["btclib.psbt.psbt.Psbt.to_v0", "btclib.psbt.psbt.Psbt.to_v2", "btclib.psbt.psbt._lock_time"], min_ok=1, timeout=300)
def version_conversion(ex, pres, fb, seqs):
    ex.prefer_int()
    ins, req = [], []
    for i, pa in enumerate(pres):
        has_h, has_t = _PRESENCE[pa]
        h = ex.int(f"h{i}", 1, 499_999_999) if has_h else None
        t = ex.int(f"t{i}", 500_000_000, 0xFFFFFFFF) if has_t else None
        seq = ex.int(f"seq{i}", 0, 0xFFFFFFFF) if seqs else None
        req.append((h, t))
        ins.append(PsbtIn(previous_tx_id=bytes([i + 1]) * 32, output_index=i, sequence=seq, required_height_lock_time=h, required_time_lock_time=t, check_validity=False))
    fallback = ex.int("fallback", 0, 0xFFFFFFFF) if fb else None
    tx_version = ex.int("txv", 2, 0xFFFFFFFF)
    outs = [PsbtOut(amount=ex.int("amt", 0, 2_100_000_000_000_000), script_pub_key=_SPK, check_validity=False)]
    p = Psbt(tx_version, ins, outs, 2, {}, fallback_lock_time=fallback, check_validity=False)
    want = _bip370_lock_time(req, fallback, fb)
    try:
        lt = p.lock_time
        tx = p.tx
        v0 = p.to_v0()
        back = v0.to_v2()
        same_version = [(p, p.to_v2()), (v0, v0.to_v0())]      # the directions with nothing to convert are roles too
    except BTClibValueError as e:
        return {"refused_only_when_kinds_conflict": want is None}
    if want is None:
        return {"conflicting_kinds_are_refused": False}

    def same_tx(a, b):
        return sand(a.version == b.version, a.lock_time == b.lock_time, len(a.vin) == len(b.vin), len(a.vout) == len(b.vout),
                    *[sand(x.prev_out.tx_id == y.prev_out.tx_id, x.prev_out.vout == y.prev_out.vout, x.sequence == y.sequence) for x, y in zip(a.vin, b.vin)],
                    *[sand(x.value == y.value, x.script_pub_key.script == y.script_pub_key.script) for x, y in zip(a.vout, b.vout)])
    shared = []
    for src, dst in [(p, v0), (v0, back)] + same_version:
        mine, theirs = {}, {}
        _mutable_ids(dst, mine)
        _mutable_ids(src, theirs)
        shared.extend(mine[i] for i in mine if i in theirs)
    return {"every_conversion_returns_a_fresh_object": not shared,
            "converting_to_the_version_already_held_changes_nothing": sand(*[a == b for a, b in same_version]),
            "lock_time_is_bip370": lt == want,
            "tx_carries_it": sand(tx.lock_time == want, tx.version == tx_version,
                                  *[x.sequence == (s if s is not None else 0xFFFFFFFF) for x, s in zip(tx.vin, [i.sequence for i in ins])]),
            "to_v0_keeps_the_transaction": same_tx(v0.tx, tx),
            "to_v0_then_to_v2_keeps_the_transaction": same_tx(back.tx, tx),
            "source_unchanged": sand(p.version == 2, p.fallback_lock_time == fallback if fb else p.fallback_lock_time is None)}


# ------------------------------------------------------------------ a signer's answer: anything but an added signature is refused
from copy import deepcopy as _deepcopy
from btclib.psbt.psbt import assert_signatures_only

_TAMPER = ["none", "in_witness_utxo_value", "in_witness_utxo_script", "in_unknown_value", "in_unknown_new_key", "in_sequence", "in_sig_hash_type", "in_redeem_script", "in_hd_fingerprint",
           "in_required_height", "out_unknown_value", "out_amount", "out_script", "out_hd_fingerprint", "global_unknown_value", "fallback_lock_time", "tx_version", "tx_modifiable_loosened",
           "tx_modifiable_tightened"]


def _request(ex):
    pin = PsbtIn(previous_tx_id=_PREV.id, output_index=0, sequence=0xFFFFFFFD, witness_utxo=TxOut(5000, _SPK, check_validity=False), unknown={b"\xf0": b"\x01\x02"},
                 hd_key_paths={_PUBS[0]: BIP32KeyOrigin(b"\x01\x02\x03\x04", [0x8000002C, 7], check_validity=False)}, redeem_script=b"", required_height_lock_time=700000, check_validity=False)
    pout = PsbtOut(amount=4000, script_pub_key=_SPK, unknown={b"\xf1": b"\x03"}, hd_key_paths={_PUBS[1]: BIP32KeyOrigin(b"\x05\x06\x07\x08", [1], check_validity=False)}, check_validity=False)
    return Psbt(2, [pin], [pout], 2, {}, unknown={b"\xf2": b"\x09"}, fallback_lock_time=5, tx_modifiable=0b001, check_validity=False)


@ob("C11", "a_signers_answer_may_only_add_signatures", quick=[dict(what=w) for w in _TAMPER],
    bound="a version 2 one-input request and an answer that is its copy with one non-signature field changed by a symbolic non-zero difference (utxo value / script byte, unknown value, a new unknown key, "
          "sequence, sighash type, redeem script, key-origin fingerprint, required height lock, output amount / script / unknown / origin, global unknown, fallback lock time, tx version, modifiable "
          "flags loosened or tightened): assert_signatures_only refuses every such answer except a tightened tx_modifiable, and accepts the unchanged copy",
    functions=["btclib.psbt.psbt.assert_signatures_only", "btclib.psbt.psbt._assert_unchanged"], outside=["answers that add signatures (their verification is 256-bit arithmetic)", "musig2 maps"], min_ok=1, timeout=300)
def signer_answer(ex, what):
    ex.prefer_int()
    request = _request(ex)
    answer = _deepcopy(request)
    d8 = ex.int("delta8", 1, 255)
    d32 = ex.int("delta32", 1, 0xFFFF)
    i, o = answer.inputs[0], answer.outputs[0]
    if what == "in_witness_utxo_value":
        i.witness_utxo = TxOut(5000 + d32, _SPK, check_validity=False)
    elif what == "in_witness_utxo_script":
        i.witness_utxo = TxOut(5000, _SPK[:5] + bytes([_SPK[5] ^ d8]) + _SPK[6:], check_validity=False)
    elif what == "in_unknown_value":
        i.unknown = {b"\xf0": bytes([1 ^ d8]) + b"\x02"}
    elif what == "in_unknown_new_key":
        i.unknown = {b"\xf0": b"\x01\x02", b"\xf7": bytes([d8])}
    elif what == "in_sequence":
        i.sequence = 0xFFFFFFFD - d32
    elif what == "in_sig_hash_type":
        i.sig_hash_type = ite(d8 % 2 == 0, 1, 3)
    elif what == "in_redeem_script":
        i.redeem_script = bytes([d8]) + b"\x51"
    elif what == "in_hd_fingerprint":
        i.hd_key_paths = {_PUBS[0]: BIP32KeyOrigin(bytes([1 ^ (d8 & 3 or 1)]) + b"\x02\x03\x04", [0x8000002C, 7], check_validity=False)}
    elif what == "in_required_height":
        i.required_height_lock_time = 700000 + d32
    elif what == "out_unknown_value":
        o.unknown = {b"\xf1": bytes([3 ^ d8])}
    elif what == "out_amount":
        o.amount = 4000 + d32
    elif what == "out_script":
        o.script_pub_key = _SPK[:7] + bytes([_SPK[7] ^ d8]) + _SPK[8:]
    elif what == "out_hd_fingerprint":
        o.hd_key_paths = {_PUBS[1]: BIP32KeyOrigin(bytes([5 ^ (d8 & 3 or 1)]) + b"\x06\x07\x08", [1], check_validity=False)}
    elif what == "global_unknown_value":
        answer.unknown = {b"\xf2": bytes([9 ^ d8])}
    elif what == "fallback_lock_time":
        answer.fallback_lock_time = 5 + d32
    elif what == "tx_version":
        answer.tx_version = 2 + d32
    elif what == "tx_modifiable_loosened":
        answer.tx_modifiable = 0b011
    elif what == "tx_modifiable_tightened":
        answer.tx_modifiable = 0b000
    try:
        assert_signatures_only(request, answer)
        ok = True
    except BTClibValueError:
        ok = False
    if what in ("none", "tx_modifiable_tightened"):
        return {"accepted": ok}
    return {"tampered_answer_refused": not ok}


_SIG_CASES = [k + "_" + h for k in ("ecdsa", "tapkey", "tapscript") for h in ("kept", "dropped", "changed", "emptied")]


@ob("C11", "a_signers_answer_keeps_every_signature_of_the_request", quick=[dict(what=w) for w in _SIG_CASES],
    bound="a second-round request that already carries a signature (an ECDSA partial signature on a p2wpkh input, a taproot key-path signature or a script-path signature on a p2tr input; signature octets symbolic) "
          "and an answer that is its copy with that signature kept, dropped, changed in one octet by a symbolic non-zero difference, or replaced by an empty value: only the kept copy is accepted "
          "(the request's own signatures are held from the request and never verified again)",
    functions=["btclib.psbt.psbt.assert_signatures_only", "btclib.psbt.psbt._assert_signatures_added_only"], outside=["answers that add signatures (their verification is 256-bit arithmetic)", "musig2 maps"],
    min_ok=1, timeout=300)
def signer_answer_keeps_signatures(ex, what):
    ex.prefer_int()
    kind, how = what.rsplit("_", 1)
    d8 = ex.int("delta8", 1, 255)
    tap = kind != "ecdsa"
    pos = ex.int("pos", 0, 63 if tap else 31)
    sig = ex.bytes("sig", 64)
    spk = (b"\x51\x20" + _G) if tap else _SPK
    leaf_key = _G + b"\x42" * 32
    pin = PsbtIn(previous_tx_id=_PREV.id, output_index=0, sequence=0xFFFFFFFD, witness_utxo=TxOut(5000, spk, check_validity=False), check_validity=False)
    def der(s32):      # a strict DER signature whose r is the generator's x (a valid x-coordinate) and whose s is the 32 symbolic octets
        return b"\x30\x44\x02\x20" + _G + b"\x02\x20" + s32 + b"\x01"
    if kind == "ecdsa":
        if not ex.concrete:
            ex.assume(sand(sig[0] >= 1, sig[0] <= 0x7F))
        elif not 1 <= sig[0] <= 0x7F:
            from sx.api import AssumeFailed
            raise AssumeFailed("s would not be minimally encoded")
        pin.partial_sigs = {_PUBS[0]: der(sig[:32])}
    elif kind == "tapkey":
        pin.taproot_key_spend_signature = sig
    else:
        pin.taproot_script_spend_signatures = {leaf_key: sig}
    pout = PsbtOut(amount=4000, script_pub_key=_SPK, check_validity=False)
    request = Psbt(2, [pin], [pout], 2, {}, check_validity=False)
    answer = _deepcopy(request)
    i = answer.inputs[0]
    flipped = bytes([ite(pos == j, sig[j] ^ d8, sig[j]) for j in range(64)]) if ex.concrete else None
    if not ex.concrete:
        from sx.seq import SymBytes
        flipped = SymBytes([ite(pos == j, sig[j] ^ d8, sig[j]) for j in range(64)])
    new = {"kept": sig, "dropped": None, "changed": flipped, "emptied": b""}[how]
    if kind == "ecdsa":
        i.partial_sigs = {} if new is None else {_PUBS[0]: der(new[:32]) if how != "emptied" else b""}
    elif kind == "tapkey":
        i.taproot_key_spend_signature = b"" if new is None else new
    else:
        i.taproot_script_spend_signatures = {} if new is None else {leaf_key: new}
    try:
        assert_signatures_only(request, answer)
        ok = True
    except BTClibValueError:
        ok = False
    if how == "kept":
        return {"the_unchanged_answer_is_accepted": ok}
    return {"an_answer_that_lost_or_altered_a_signature_is_refused": not ok}
