"""C20 — one-step inductive obligations over a symbolic pre-state: nonces sign once, wiped/closed signers stay dead, the wallet ledger."""
from sx.api import ob, sand, sor, snot, ite, implies, iff
from harness import toy

from btclib.curves.curve import secp256k1
from btclib.ecc import dsa, ssa, musig2
from btclib.exceptions import BTClibValueError, BTClibTypeError, BTClibRuntimeError
from btclib.wallet.wallet import RangedWallet

N = secp256k1.n


# ------------------------------------------------------------------ wallet ledger
class _Addr:
    """Stand-in for an address string: hashable by identity, truthy, carries its position (so a symbolic index needs no text)."""

    def __init__(self, branch, index):
        self.branch, self.index = branch, index


class _W(RangedWallet):
    script_type = "test"

    @property
    def branches(self):
        return (0, 1)

    @property
    def is_watch_only(self):
        return True

    def _script_pub_key(self, branch, index):
        raise NotImplementedError

    def _address(self, branch, index):
        return _Addr(branch, index)


@ob("C20", "wallet_next_index_step", quick=[dict(b=0), dict(b=1)],
    bound="pre-state: arbitrary next-index counters n0, n1 >= 0 for the two branches (symbolic, up to 2^31) -- any state an earlier history can have left; "
          "one call address(b, i) with symbolic index i, then next_address(b): the counter is the maximum of its old value and i+1, the other branch is untouched, "
          "and next_address hands out exactly that counter and advances it by one. Induction over calls: the counter always exceeds every index handed out.",
    stubs=["the address of (branch, index) is an opaque object, injective in its position (no text)"],
    functions=["btclib.wallet.wallet.RangedWallet.address", "btclib.wallet.wallet.RangedWallet.next_address"], min_ok=1)
def wallet_step(ex, b):
    w = _W()
    n0 = ex.int("n0", 0, 1 << 31)
    n1 = ex.int("n1", 0, 1 << 31)
    w._next_index = {0: n0, 1: n1}
    i = ex.int("i", -1, 1 << 31)
    try:
        a = w.address(b, i)
    except BTClibValueError:
        return ex.refuse("BTClibValueError", only_negative_index=i < 0)
    old = n0 if b == 0 else n1
    other_old = n1 if b == 0 else n0
    want = ite(old > i + 1, old, i + 1)
    claims = {"counter_is_max": w._next_index[b] == want, "counter_above_index": w._next_index[b] > i,
              "other_branch_untouched": w._next_index[1 - b] == other_old, "recorded_once": sand(len(w._handed_out) == 1, a.index == i, a.branch == b)}
    nxt = w.next_address(b)
    claims["next_address_is_lowest_unissued"] = sand(nxt.index == want, nxt.branch == b)
    claims["next_address_advances"] = w._next_index[b] == want + 1
    return claims


@ob("C20", "wallet_fresh_branch_starts_at_zero", quick=[dict()], bound="a branch with no counter yet: next_address hands out index 0, then 1",
    functions=["btclib.wallet.wallet.RangedWallet.next_address"], min_ok=1)
def wallet_fresh(ex):
    w = _W()
    other = ex.int("n1", 0, 1 << 31)
    w._next_index = {1: other}
    a = w.next_address(0)
    b = w.next_address(0)
    return {"starts_at_zero": sand(a.index == 0, b.index == 1, w._next_index[0] == 2, w._next_index[1] == other)}


# ------------------------------------------------------------------ wiped signers
def _signer_params():
    return [dict(kind=k, ec=c) for k in ("dsa", "ssa") for c in ("ec23_19",)]


@ob("C20", "wiped_signer_never_signs", quick=_signer_params(),
    bound="a Signer object (Python arm, toy curve) whose private scalar is arbitrary and whose wiped flag is arbitrary: wipe() always leaves scalar 0 and the flag set; "
          "with the flag set, sign_ and sign refuse for every message; neither entry point ever clears the flag",
    stubs=["dsa.challenge_ and ssa.sign_ (what a Signer calls right after its wiped-flag check) are recorders: reaching them counts as signing"],
    functions=["btclib.ecc.dsa.Signer.wipe", "btclib.ecc.ssa.Signer.wipe", "btclib.ecc.dsa.Signer.sign_", "btclib.ecc.ssa.Signer.sign_"], min_ok=1)
def wiped_signer(ex, kind, ec):
    curve = toy.curve(ec)
    mod = dsa if kind == "dsa" else ssa
    s = mod.Signer.__new__(mod.Signer)
    q = ex.int("q", 0, curve.n - 1)
    wiped = ex.bool("wiped")
    s._q, s._ec, s._hf, s._hf_len, s._wiped = q, curve, mod.sha256, 32, wiped
    if kind == "dsa":
        s._python_key, s._pub_key_sec, s._prvkey_buffer = ((1, 1), frozenset()), None, None
    else:
        s._signer = None
    s.wipe()
    claims = {"wipe_sets_flag_and_clears_scalar": sand(s._wiped == True, s._q == 0)}   # noqa: E712
    # past the flag check, the first thing either Signer does is derive the challenge / call the module-level signer: reaching it is the violation
    reached = []

    class _Reached(Exception):
        pass

    def rec(*a, **k):
        reached.append(1)
        raise _Reached()
    ex.stub(dsa.challenge_, rec)
    ex.stub(ssa.sign_, rec)
    msg = ex.bytes("m", 32)
    for name, call in (("sign_", lambda: s.sign_(msg)), ("sign", lambda: s.sign(msg))):
        try:
            call()
            refused = False
        except BTClibValueError:
            refused = True
        except _Reached:
            refused = False
        claims[f"{name}_refuses_after_wipe"] = sand(refused, len(reached) == 0)
        claims[f"{name}_keeps_flag"] = s._wiped == True   # noqa: E712
    return claims


# ------------------------------------------------------------------ closed software signer
from btclib import psbt_signer as _ps
from btclib.bip32.key_origin import BIP32KeyOrigin

_XPRV = "xprv9s21ZrQH143K3QTDL4LXw2F7HEK3wJUD2nW2nRk4stbPy6cq3jPPqjiChkVvvNKmPGJxWUtg6LnF5kejMRNNU3TGtRBeJgk33yuGBxrMPHi"   # BIP32 test vector 1 master


@ob("C20", "closed_software_signer_never_reaches_a_signing_primitive", quick=[dict(method=m) for m in ("sign_ecdsa", "sign_schnorr", "sign_schnorr_script_path", "sign_message")],
    bound="a SoftwareSigner over the BIP32 vector-1 master key, its closed flag symbolic, asked to sign a symbolic 32-byte digest with a key and origin it holds: "
          "when closed, the call raises and the signing primitive is never reached",
    stubs=["dsa.sign_, ssa.sign_, ssa.Signer.sign_ and bms.sign are replaced by a recorder (the signature itself is 256-bit arithmetic)"],
    functions=["btclib.psbt_signer.SoftwareSigner._prv_key"], min_ok=1, timeout=600)
def closed_signer(ex, method):
    from btclib.ecc import bms
    ex.concrete_randomness()
    reached = []

    class _Tok:
        def serialize(self, **kw):
            return b"signature"

    def rec(*a, **k):
        reached.append(1)
        return _Tok()

    class _RecSigner:
        def __init__(self, *a, **k):
            pass

        def __enter__(self):
            return self

        def __exit__(self, *a):
            return None

        def sign_(self, *a, **k):
            reached.append(1)
            return b"signature"

        def wipe(self):
            pass
    ex.stub(dsa.sign_, rec)
    ex.stub(ssa.sign_, rec)
    ex.stub(ssa.Signer, _RecSigner)
    ex.stub(bms.sign, rec)
    signer = _ps.SoftwareSigner(_XPRV)
    closed = ex.bool("closed")
    signer._closed = closed
    from btclib.bip32 import bip32
    child = bip32.derive_(_XPRV, "m/0")
    pub = bip32.xpub_from_xprv_(child).key
    origin = BIP32KeyOrigin(signer._fingerprint, "m/0")
    digest = ex.bytes("h", 32)
    try:
        if method == "sign_ecdsa":
            r = signer.sign_ecdsa(pub, origin, digest)
        elif method == "sign_schnorr":
            r = signer.sign_schnorr(pub[1:], origin, digest, b"")
        elif method == "sign_schnorr_script_path":
            r = signer.sign_schnorr_script_path(pub[1:], origin, digest, b"\\x11" * 32)
        else:
            r = signer.sign_message(digest, "m/0")
        raised = False
    except BTClibValueError:
        raised = True
    return {"closed_signer_raises_and_signs_nothing": implies(closed, sand(raised, len(reached) == 0)),
            "open_signer_signs": implies(snot(closed), sand(snot(raised), len(reached) > 0))}


# ------------------------------------------------------------------ MuSig2 secret nonce
@ob("C20", "musig2_secret_nonce_signs_at_most_once", quick=[dict()],
    bound="an arbitrary 97-byte secret nonce (symbolic bytearray), arbitrary private key in 1..n-1, arbitrary parities of R and Q, the public-key match arbitrary (session scalars b, e, gacc, a concrete): "
          "whenever sign() gets past reading the nonce -- returning or raising -- the first 64 bytes of the caller's bytearray are zero; a nonce whose first 64 bytes are zero is always refused "
          "(so no history of calls signs twice with one nonce: the two facts are an inductive invariant)",
    stubs=["session_values, individual_pub_key and the key-aggregation coefficient are arbitrary values (point arithmetic is 256-bit)",
           "the value of the partial signature itself is not examined here"],
    functions=["btclib.ecc.musig2.sign"], min_ok=1, timeout=900)
def musig2_nonce(ex):
    ex.no_div_witness()
    nonce = ex.bytearray("sn", 97)
    before = [nonce[i] for i in range(97)]
    d = ex.int("d", 1, N - 1)
    # session scalars are concrete here: the nonce discipline does not depend on them, and symbolic 256-bit products
    # would put non-linear constraints into every path condition (the value of s is C16's subject)
    b_, e_, gacc, a_ = 3, 5, 1, 7
    r_odd = ex.int("r_odd", 0, 1)
    q_odd = ex.int("q_odd", 0, 1)
    pk_matches = ex.bool("pk_matches")

    class _V:
        R = (5, 2 + r_odd)
        Q = (5, 2 + q_odd)
        b = b_
        e = e_
    _V.gacc = gacc
    ex.stub(musig2.session_values, lambda ctx: _V)
    ex.stub(musig2._session_key_agg_coeff, lambda ctx, pk: a_)
    pkb = bytes(before[64:]) if ex.concrete else None

    def ind_pk(dd):
        from sx.seq import mk_bytes
        tail = bytes(before[64:]) if ex.concrete else mk_bytes(before[64:])
        return tail if pk_matches else b"\\x02" + b"\\xee" * 32
    ex.stub(musig2.individual_pub_key, ind_pk)
    k1 = int.from_bytes(bytes(before[:32]) if ex.concrete else _mk(before[:32]), "big")
    k2 = int.from_bytes(bytes(before[32:64]) if ex.concrete else _mk(before[32:64]), "big")
    try:
        s = musig2.sign(nonce, d, object())
        raised = False
    except BTClibValueError:
        raised = True
    zero = sand(*[nonce[i] == 0 for i in range(64)])
    claims = {"nonce_zeroed_after_the_call": zero}
    if raised:
        return ex.refuse("BTClibValueError", nonce_zeroed_after_the_call=zero,
                         refused_only_for_bad_nonce_or_key=sor(k1 == 0, k1 >= N, k2 == 0, k2 >= N, snot(pk_matches)))
    claims["signed_only_with_a_fresh_in_range_nonce"] = sand(k1 > 0, k1 < N, k2 > 0, k2 < N, pk_matches)
    claims["returns_32_bytes"] = len(s) == 32
    return claims


def _mk(items):
    from sx.seq import mk_bytes
    return mk_bytes(items)
