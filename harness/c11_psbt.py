"""C11 — PSBT Combiner merge rules on symbolic field values (the per-field rule is read out of psbt.combine's own source)."""
import ast
import inspect
import itertools
import textwrap
import types

from sx.api import ob, sand, sor, snot, ite, implies, iff

from btclib.psbt import psbt as P

# which merge helper psbt.combine applies to which field, per map kind: read from the library's source on every run
def _merge_rules():
    src = textwrap.dedent(inspect.getsource(P.combine))
    rules = {}
    for node in ast.walk(ast.parse(src)):
        if isinstance(node, ast.Call) and isinstance(node.func, ast.Name) and node.func.id in ("_combine_field", "_combine_optional_field") and len(node.args) == 3:
            where = ast.unparse(node.args[0])
            kind = "input" if "inputs" in where else ("output" if "outputs" in where else "global")
            rules[(kind, node.args[2].value)] = node.func.id
    return rules


RULES = _merge_rules()
# integer-valued optional fields (None = absent) whose value 0 is meaningful
_INT_FIELDS = [("input", "sig_hash_type", 0, 0xFFFFFFFF), ("input", "sequence", 0, 0xFFFFFFFF), ("input", "required_time_lock_time", 500000000, 0xFFFFFFFF),
               ("input", "required_height_lock_time", 1, 499999999), ("global", "fallback_lock_time", 0, 0xFFFFFFFF)]


def _merge(kind, key, values):
    """Fold the operands' values of one field the way psbt.combine does: first operand is the accumulator."""
    fn = getattr(P, RULES[(kind, key)])
    acc = types.SimpleNamespace(**{key: values[0]})
    for v in values[1:]:
        fn(types.SimpleNamespace(**{key: v}), acc, key)
    return getattr(acc, key)


def _opt(ex, name, lo, hi):
    present = ex.bool(name + "_present")
    value = ex.int(name, lo, hi)
    return present, value


@ob("C11", "optional_integer_fields_merge_losslessly_in_any_order", quick=[dict(kind=k, key=f, lo=lo, hi=hi, n=2) for k, f, lo, hi in _INT_FIELDS],
    thorough=[dict(kind=k, key=f, lo=lo, hi=hi, n=n) for k, f, lo, hi in _INT_FIELDS for n in (2, 3)],
    bound="n operands (2; thorough also 3), each holding the field absent or with a symbolic value over its whole range (zero included); the merge helper is the one psbt.combine's source names for that field; "
          "for operands that do not conflict (all present values equal) every order gives the same result and a present value is never lost",
    functions=["btclib.psbt.psbt._combine_optional_field"], min_ok=1)
def int_fields(ex, kind, key, lo, hi, n):
    ops = [_opt(ex, f"v{i}", lo, hi) for i in range(n)]
    present_vals = [v for p, v in ops]
    # case split on presence so that each operand's value is a real None or an int, as in a PSBT
    conc = [(bool(p), v) for p, v in ops]
    vals = [v if p else None for p, v in conc]
    held = [v for v in vals if v is not None]
    no_conflict = sand(*[a == b for a, b in itertools.combinations(held, 2)]) if len(held) > 1 else True
    results = [_merge(kind, key, [vals[i] for i in perm]) for perm in itertools.permutations(range(n))]
    claims = {}
    if held:
        claims["present_value_is_kept"] = implies(no_conflict, sand(*[r is not None and r == held[0] for r in results]) if all(r is not None for r in results) else False)
    else:
        claims["absent_stays_absent"] = all(r is None for r in results)
    return claims


class _Stub:
    def __init__(self, tm):
        self.tx_modifiable = tm


@ob("C11", "tx_modifiable_merge_is_order_independent_and_never_more_permissive", quick=[dict(n=2), dict(n=3)],
    bound="n = 2, 3 version-2 PSBTs whose PSBT_GLOBAL_TX_MODIFIABLE is absent or any byte (symbolic): the merged flags are the same for every order, combining a PSBT with itself changes nothing, "
          "inputs/outputs-modifiable survive only if every operand sets them (an absent field counts as not set), the has-SIGHASH_SINGLE bit and unknown bits are the union",
    functions=["btclib.psbt.psbt._combined_tx_modifiable"], min_ok=1)
def tx_modifiable(ex, n):
    ops = [_opt(ex, f"m{i}", 0, 255) for i in range(n)]
    conc = [(bool(p), v) for p, v in ops]
    vals = [v if p else None for p, v in conc]
    results = [P._combined_tx_modifiable([_Stub(vals[i]) for i in perm]) for perm in itertools.permutations(range(n))]
    held = [v for v in vals if v is not None]
    claims = {"same_for_every_order": all((r is None) == (results[0] is None) for r in results) and (results[0] is None or sand(*[r == results[0] for r in results]))}
    if not held:
        claims["absent_when_no_operand_has_it"] = results[0] is None
        return claims
    r = results[0]
    if r is None:
        return {"field_lost": False}
    and_bits = 3
    for v in vals:
        and_bits = and_bits & (v if v is not None else 0)
    or_bits = 0
    for v in held:
        or_bits = or_bits | v
    claims["is_and_of_modifiable_or_of_the_rest"] = r == (and_bits & 3) | (or_bits & 0xFC)
    claims["idempotent"] = P._combined_tx_modifiable([_Stub(held[0]), _Stub(held[0])]) == held[0]
    return claims
