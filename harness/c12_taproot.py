"""C12 — taproot outputs commit to exactly their key and script tree (secp256k1 point arithmetic abstracted)."""
from sx.api import ob, sand, sor, snot, ite, implies, iff

from btclib import hashes as _hashes
from btclib.curves import curve as curve_mod
from btclib.curves.curve import secp256k1
from btclib.exceptions import BTClibValueError, BTClibTypeError
from btclib.script import taproot
from btclib.script.script import serialize as script_serialize

_STUBS = ["sha256 (hence every tagged hash) is an injective uninterpreted function",
          "secp256k1 point arithmetic is abstract: P + t*G is an injective uninterpreted function of (x(P), t) returning an x-coordinate and a parity bit; "
          "lifting an x-coordinate succeeds or fails arbitrarily (a symbolic bit); x(d*G) and its parity are arbitrary functions of d"]

N = secp256k1.n
_INTERNAL = secp256k1.G[0].to_bytes(32, "big")   # a valid x-only key (the generator)


def _tagged_ufs(ex):
    """One injective uninterpreted function per BIP340 tag (domain separation between tags is assumed)."""
    ufs = {}

    def tagged_hash(tag, m, hf=None):
        u = ufs.get(tag)
        if u is None:
            u = ufs[tag] = ex.uf("tagged-" + tag.decode(), 32, injective=True)
        return u(m)
    ex.stub(_hashes.tagged_hash, tagged_hash)
    return tagged_hash


def _install(ex, lift="always"):
    from sx import instr
    if not ex.concrete:
        instr.HASH_INJECTIVE = True
    th = _tagged_ufs(ex)
    F = ex.uf("tweak_add_x", 32, injective=True)
    Fp = ex.uf("tweak_add_parity", 1, injective=False)
    X = ex.uf("pub_x", 32, injective=True)

    def mult(m, Q=None, ec=None, **kw):
        assert Q is None
        return ("tG", m)

    def add_var(P, T):
        if isinstance(T, tuple) and T and T[0] == "tG":
            arg = P[0].to_bytes(32, "big") + T[1].to_bytes(32, "big")
            return int.from_bytes(F(arg), "big"), Fp(arg)[0] & 1
        raise AssertionError("unexpected add_var operands")

    def y_even(x, ec):
        if lift == "symbolic":
            ok = ex.fresh_var("liftable", 0, 1)
            if ok == 0:
                raise BTClibValueError("invalid x-coordinate (stub)")
        return 2
    ex.stub(curve_mod.mult, mult)
    ex.stub(secp256k1.add_var, add_var, owner=secp256k1, attr="add_var")
    ex.stub(curve_mod._y_even_var, y_even)
    ex.path_state["c12_lift"] = lift
    return th


def _ref_root(tree, leaf_hashes, th):
    """BIP341: leaf = tagged(TapLeaf, version || ser(script)); branch = tagged(TapBranch, sorted children)."""
    if len(tree) == 1:
        return leaf_hashes[id(tree)]
    l, r = _ref_root(tree[0], leaf_hashes, th), _ref_root(tree[1], leaf_hashes, th)
    if r < l:
        l, r = r, l
    return th(b"TapBranch", l + r)


_SHAPES = {
    1: ["L"],
    2: [["L", "L"]],
    3: [["L", ["L", "L"]], [["L", "L"], "L"]],
    4: [[["L", "L"], ["L", "L"]], ["L", ["L", ["L", "L"]]]],      # the left comb of four did not finish in the 900 s instance budget
    5: [[["L", "L"], ["L", ["L", "L"]]]],
}


def _build(ex, shape, counter):
    if shape == "L":
        k = counter[0]
        counter[0] += 1
        data = ex.bytes(f"s{k}_", 2)
        leaf = [(0xC0 + 2 * ex.int(f"v{k}", 0, 1), [data])]
        return leaf
    return [_build(ex, shape[0], counter), _build(ex, shape[1], counter)]


def _leaves(tree, out):
    if len(tree) == 1:
        out.append(tree)
    else:
        _leaves(tree[0], out)
        _leaves(tree[1], out)
    return out


def _params(tier):
    ns = (1, 2, 3) if tier == "quick" else (1, 2, 3, 4)
    return [dict(n=n, shape=i) for n in ns for i in range(len(_SHAPES[n]))]


@ob("C12", "tree_root_and_control_blocks", quick=_params("quick"), thorough=_params("thorough"),
    bound="every listed tree shape with 1..3 leaves (thorough 1..5); each leaf script is a push of 2 symbolic bytes, leaf version symbolic in {0xc0, 0xc2}; "
          "internal key concrete (BIP341 vector key); every leaf's control block is checked against the output key",
    stubs=_STUBS, functions=["btclib.script.taproot.tree_helper", "btclib.script.taproot.leaf_hash", "btclib.script.taproot.input_script_sig",
                             "btclib.script.taproot.check_output_pubkey", "btclib.script.taproot._tap_tweak", "btclib.script.taproot._tweaked_pubkey"],
    outside=["output_pubkey == x(output_prvkey * G) (needs the group homomorphism at 256 bits)", "trees with more than 5 leaves"],
    timeout=900, weight=4, min_ok=1)
def tree_and_control(ex, n, shape):
    th = _install(ex)
    tree = _build(ex, _SHAPES[n][shape], [0])
    leaves = _leaves(tree, [])
    lh = {}
    for lf in leaves:
        ver, script = lf[0]
        lh[id(lf)] = th(b"TapLeaf", bytes([ver & 0xFE]) + bytes([len(script_serialize(script))]) + script_serialize(script))
    want_root = _ref_root(tree, lh, th)
    _, root = taproot.tree_helper(tree)
    claims = {"merkle_root_is_bip341": root == want_root}
    try:
        q, parity = taproot.output_pubkey("02" + _INTERNAL.hex(), tree)
    except BTClibValueError:
        return ex.refuse("tweak_out_of_range")
    for i in range(len(leaves)):
        script, control = taproot.input_script_sig("02" + _INTERNAL.hex(), tree, i)
        try:
            ok = taproot.check_output_pubkey(q, script_serialize(script), control)
        except BTClibValueError:
            ok = False
        claims[f"control_block_{i}_proves_its_leaf"] = ok == True   # noqa: E712
        claims[f"control_block_{i}_layout"] = sand(len(control) == 33 + 32 * _depth(tree, leaves[i]), control[1:33] == _INTERNAL,
                                                   (control[0] & 1) == parity, (control[0] & 0xFE) == (leaves[i][0][0] & 0xFE))
    return claims


def _depth(tree, leaf, d=0):
    if tree is leaf:
        return d
    if len(tree) == 1:
        return -1
    for sub in tree:
        r = _depth(sub, leaf, d + 1)
        if r >= 0:
            return r
    return -1


@ob("C12", "altered_commitment_does_not_verify", quick=[dict(what=w) for w in ("control_path", "control_key", "control_byte0", "script", "output_key")],
    bound="two-leaf tree with symbolic leaf scripts; one byte (symbolic position within the named part) XOR-ed with a symbolic non-zero value",
    stubs=_STUBS, functions=["btclib.script.taproot.check_output_pubkey", "btclib.script.engine.taproot_unwrap_script"], timeout=900, weight=3)
def altered(ex, what):
    _install(ex)
    tree = _build(ex, _SHAPES[2][0], [0])
    try:
        q, parity = taproot.output_pubkey("02" + _INTERNAL.hex(), tree)
    except BTClibValueError:
        return ex.refuse("tweak_out_of_range")
    script, control = taproot.input_script_sig("02" + _INTERNAL.hex(), tree, 0)
    sbytes = script_serialize(script)
    delta = ex.int("delta", 1, 255)

    def flip(b, lo, hi):
        pos = ex.int("pos", lo, hi - 1)
        return bytes([b[i] ^ ite(pos == i, delta, 0) for i in range(len(b))])
    if what == "control_path":
        control = flip(control, 33, 65)
    elif what == "control_key":
        control = flip(control, 1, 33)
    elif what == "control_byte0":
        control = flip(control, 0, 1)
    elif what == "script":
        sbytes = flip(sbytes, 0, len(sbytes))
    else:
        q = flip(q, 0, 32)
    try:
        ok = taproot.check_output_pubkey(q, sbytes, control)
    except BTClibValueError:
        ok = False
    claims = {"altered_commitment_rejected": ok == False}   # noqa: E712
    # the engine's own use of the proof: a script-path witness whose control block does not commit is refused, whatever its leaf version
    from btclib.script.engine import taproot_unwrap_script
    try:
        taproot_unwrap_script(b"\x51\x20" + q, [b"\x01", sbytes, control])
        claims["engine_refuses_the_altered_spend"] = False
    except BTClibValueError:
        claims["engine_refuses_the_altered_spend"] = True
    return claims


@ob("C12", "tweak_range_and_private_key_parity", quick=[dict()],
    bound="internal private key d in 1..n-1 symbolic (256 bits), merkle root 32 symbolic bytes; x(dG) arbitrary, its parity a symbolic bit; the tweak is an arbitrary 256-bit value",
    stubs=_STUBS, functions=["btclib.script.taproot._tweaked_prvkey", "btclib.script.taproot._tap_tweak"], timeout=600, min_ok=1)
def prvkey_tweak(ex):
    from sx import instr
    if not ex.concrete:
        instr.HASH_INJECTIVE = True
    th = _tagged_ufs(ex)
    d = ex.int("d", 1, N - 1)
    h = ex.bytes("h", 32)
    px = ex.bytes("px", 32)
    odd = ex.int("odd", 0, 1)

    def mult(m, Q=None, ec=None, **kw):
        return (int.from_bytes(px, "big"), 2 + odd)
    ex.stub(curve_mod.mult, mult)
    t = int.from_bytes(th(b"TapTweak", px + h), "big")
    try:
        out = taproot._tweaked_prvkey(d, h)
    except BTClibValueError:
        return ex.refuse("BTClibValueError", refused_only_when_tweak_not_below_n=t >= N)
    dd = ite(odd == 1, N - d, d)
    return {"tweaked_key": out == (dd + t) % N, "accepted_only_in_range": t < N}


@ob("C12", "control_block_size_rule", quick=[dict(L=l) for l in (0, 1, 32, 33, 34, 64, 65, 66, 97)], bound="control blocks of the listed lengths (bytes symbolic)",
    functions=["btclib.script.taproot.assert_valid_control_block"], min_ok=0)
def control_size(ex, L):
    b = ex.bytes("c", L)
    try:
        taproot.assert_valid_control_block(b)
    except BTClibValueError:
        return ex.refuse("BTClibValueError", refused_only_bad_size=(L - 1) % 32 != 0)
    return {"accepted_only_1_mod_32": (L - 1) % 32 == 0}


@ob("C12", "unliftable_internal_key_is_refused", quick=[dict()],
    bound="a 33-byte control block and a 3-byte script, all symbolic; whether the internal key lifts to a curve point is an arbitrary bit",
    stubs=_STUBS, functions=["btclib.script.taproot.check_output_pubkey"], min_ok=1)
def unliftable(ex):
    _install(ex, lift="symbolic")
    control = ex.bytes("ctl", 33)
    script = ex.bytes("scr", 3)
    q = ex.bytes("q", 32)
    try:
        r = taproot.check_output_pubkey(q, script, control)
    except BTClibValueError:
        return ex.refuse("BTClibValueError")
    # reaching a verdict means the key lifted (the stub's bit was 1) and the tweak was in range
    return {"verdict_is_bool": sor(r == True, r == False), "answered_only_for_liftable_key": ex.inputs_value("liftable!1") == 1}   # noqa: E712



@ob("C12", "control_block_depth_limit_is_128", quick=[dict(m=m) for m in (0, 1, 127, 128, 129)],
    bound="control blocks with m = 0, 1, 127, 128, 129 path hashes (control block concrete, the output key it is checked against symbolic): a verdict is returned for m <= 128 (BIP341's limit) and "
          "the block is refused as too long for m = 129; real SHA-256 and real secp256k1 arithmetic run on the concrete parts",
    functions=["btclib.script.taproot.check_output_pubkey"], min_ok=0, timeout=600)
def depth_limit(ex, m):
    ex.concrete_randomness()        # the point arithmetic runs on concrete operands; its blinding factor must be concrete too
    q = ex.bytes("q", 32)
    control = bytes([0xC0 + (m & 1)]) + _INTERNAL + b"\x05" * (32 * m)
    try:
        r = taproot.check_output_pubkey(q, b"\x51", control)
    except BTClibValueError:
        return {"refused_only_beyond_128_hashes": m > 128}
    return {"answered_up_to_128_hashes": sand(m <= 128, sor(r == True, r == False))}   # noqa: E712


@ob("C12", "output_private_key_opens_the_output_public_key", quick=[dict()],
    bound="internal private key d in 1..n-1 (256 bits) and merkle root (32 octets) symbolic; x(d*G) and its parity arbitrary functions of d: the private key _tweaked_prvkey answers multiplies the generator "
          "to the x-only key (and parity) _tweaked_pubkey answers for x(d*G), and the two refuse together (tweak >= n)",
    stubs=_STUBS + ["the group homomorphism enters as one assumed instance on exactly the terms BIP341 builds: with d' = d or n - d (so that d'*G has even y) and t the TapTweak hash, "
                    "x((d' + t) mod n * G) = x(lift_x(x(d*G)) + t*G), and likewise for the parity (a true statement about secp256k1; a library that negated the wrong way or hashed another key is not helped by it)"],
    functions=["btclib.script.taproot._tweaked_prvkey", "btclib.script.taproot._tweaked_pubkey", "btclib.script.taproot._tap_tweak"], timeout=600, min_ok=1)
def prvkey_opens_pubkey(ex):
    from sx import instr
    if not ex.concrete:
        instr.HASH_INJECTIVE = True
    th = _tagged_ufs(ex)
    F = ex.uf("tweak_add_x", 32, injective=True)
    Fp = ex.uf("tweak_add_parity", 1, injective=False)
    X = ex.uf("pub_x", 32, injective=True)
    Par = ex.uf("pub_parity", 1, injective=False)

    class PointOf:                      # m*G: coordinates are uninterpreted functions of m; the scalar stays readable for the addition stub
        def __init__(self, m):
            self.scalar = m
            mb = m.to_bytes(32, "big")
            self.xy = (int.from_bytes(X(mb), "big"), 2 + (Par(mb)[0] & 1))

        def __getitem__(self, i):
            return self.xy[i]

    def mult(m, Q=None, ec=None, **kw):
        assert Q is None
        return PointOf(m)

    def add_var(P, T):
        assert isinstance(T, PointOf) and P[1] % 2 == 0
        arg = P[0].to_bytes(32, "big") + T.scalar.to_bytes(32, "big")
        return int.from_bytes(F(arg), "big"), Fp(arg)[0] & 1
    ex.stub(curve_mod.mult, mult)
    ex.stub(secp256k1.add_var, add_var, owner=secp256k1, attr="add_var")
    d = ex.int("d", 1, N - 1)
    h = ex.bytes("h", 32)
    db = d.to_bytes(32, "big")
    px = X(db)
    odd = Par(db)[0] & 1
    t = int.from_bytes(th(b"TapTweak", px + h), "big")
    dd = ite(odd == 1, N - d, d)
    k = (dd + t) % N
    arg = px + t.to_bytes(32, "big")
    if not ex.concrete:
        ex.assume(implies(sand(t < N, k != 0), sand(X(k.to_bytes(32, "big")) == F(arg), (Par(k.to_bytes(32, "big"))[0] & 1) == (Fp(arg)[0] & 1))))
    fake = type("K", (), dict(sec=b"\x02" + px, point=(int.from_bytes(px, "big"), 2), is_compressed=True))()
    prv = pub = None
    try:
        prv = taproot._tweaked_prvkey(d, h)
    except BTClibValueError:
        pass
    try:
        pub = taproot._tweaked_pubkey(fake, h)
    except BTClibValueError:
        pass
    if prv is None or pub is None:
        return ex.refuse("BTClibValueError", both_refuse_and_only_a_tweak_out_of_range=sand(prv is None, pub is None, t >= N))
    if bool(prv == 0):
        return ex.refuse("zero_key")         # probability 2^-256; BIP341 does not treat it and neither does the library
    pb = prv.to_bytes(32, "big")
    return {"private_key_is_bip341s": prv == k, "x_of_private_key_times_G_is_the_output_key": X(pb) == pub[0], "parity_agrees": (Par(pb)[0] & 1) == pub[1], "tweak_in_range": t < N}
