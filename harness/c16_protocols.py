"""C16 — honest parties agree: ECDH and Pedersen on toy curves (group law = oracle); MuSig2 scalar bookkeeping vs BIP327."""
from sx.api import ob, sand, sor, snot, ite, implies, iff
from harness import toy

from btclib.curves import curve as curve_mod
from btclib.curves.curve import secp256k1
from btclib.ecc import dh, pedersen, musig2
from btclib.exceptions import BTClibValueError, BTClibRuntimeError

N = secp256k1.n
_ORACLE = ["curve.mult / double_mult_var / multi_mult_var are answered from an independent discrete-log table of the whole curve group (C01 checks the real arithmetic against it)"]


@ob("C16", "ecdh_both_sides_derive_the_same_secret", quick=[dict(ec=c) for c in ("ec13_11", "ec23_19")], thorough=[dict(ec=c) for c in toy.ALL],
    bound="both private keys symbolic in 1..n-1; key-derivation function (ANSI X9.63 with sha256) uninterpreted; shared info absent / 3 symbolic bytes",
    stubs=_ORACLE + ["sha256 is an uninterpreted function"], functions=["btclib.ecc.dh.diffie_hellman"], timeout=600, min_ok=1)
def ecdh(ex, ec):
    name = ec
    ec = toy.curve(name)
    g = toy.install_group_oracle(ex, name)
    a = ex.int("a", 1, ec.n - 1)
    b = ex.int("b", 1, ec.n - 1)
    A = g.aff(g.mul_idx(a, g.g))
    B = g.aff(g.mul_idx(b, g.g))
    info = ex.bytes("info", 3)
    try:
        ka = dh.diffie_hellman(a, B, 16, info, ec)
        kb = dh.diffie_hellman(b, A, 16, info, ec)
    except BTClibRuntimeError:
        return {"honest_exchange_never_refused": False}
    return {"same_secret": ka == kb, "length": sand(len(ka) == 16, len(kb) == 16)}


@ob("C16", "pedersen_commitment_opens_and_binds", quick=[dict(ec=c) for c in ("ec13_11", "ec23_19")], thorough=[dict(ec=c) for c in toy.ALL[:8]],
    bound="blinding r and values v, v' symbolic in 0..n-1 on toy curves (second generator derived by the library's own hash-to-curve, concretely): "
          "a commitment opens for its (r, v) and for no other v' under the same r",
    stubs=_ORACLE, functions=["btclib.ecc.pedersen.commit", "btclib.ecc.pedersen.verify"], timeout=600, min_ok=1)
def pedersen_binds(ex, ec):
    name = ec
    ec = toy.curve(name)
    H = pedersen.second_generator(ec)     # concrete, before the oracle is installed
    g = toy.install_group_oracle(ex, name)
    n = ec.n
    r = ex.int("r", 0, n - 1)
    v = ex.int("v", 0, n - 1)
    v2 = ex.int("v2", 0, n - 1)
    try:
        C = pedersen.commit(r, v, ec)
    except BTClibRuntimeError:
        # the commitment would be the point at infinity
        return ex.refuse("BTClibRuntimeError", only_for_infinity=g.add_idx(g.mul_idx(v, g.idx_of_aff(H[0], H[1])), g.mul_idx(r, g.g)) == 0)
    ok = pedersen.verify(r, v, C, ec)
    ok2 = pedersen.verify(r, v2, C, ec)
    return {"opens_for_its_value": ok == True, "binds_the_value": implies(v2 != v, ok2 == False)}   # noqa: E712


# ------------------------------------------------------------------ MuSig2 scalar bookkeeping (BIP327)
@ob("C16", "musig2_apply_tweak_is_bip327", quick=[dict(xonly=0), dict(xonly=1)],
    bound="aggregate key with symbolic y parity, gacc and tacc symbolic in 0..n-1, tweak 32 symbolic bytes, plain and x-only tweaks: "
          "g = n-1 exactly for an x-only tweak of an odd-y key; gacc' = g*gacc, tacc' = t + g*tacc (mod n); tweaks >= n refused",
    stubs=["point negation / tweak addition are abstract (the new point is an arbitrary non-infinity point); products of two symbolic 256-bit scalars are uninterpreted on both sides"],
    functions=["btclib.ecc.musig2.apply_tweak"], timeout=600, min_ok=1)
def apply_tweak(ex, xonly):
    ex.merge_conditionals()
    ex.abstract_wide_arith(200, div_bits=None)
    ex.prefer_int()
    odd = ex.int("odd", 0, 1)
    gacc = ex.int("gacc", 0, N - 1)
    tacc = ex.int("tacc", 0, N - 1)
    tweak = ex.bytes("t", 32)
    t = int.from_bytes(tweak, "big")
    Q = (5, 2 + odd)
    ex.stub(curve_mod._tweak_add_var, lambda P, tt, ec: (9, 4))
    ex.stub(musig2._tweak_add_var, lambda P, tt, ec: (9, 4))
    ctx = musig2.KeyAggContext(Q, gacc, tacc)
    try:
        out = musig2.apply_tweak(ctx, tweak, bool(xonly))
    except BTClibValueError:
        return ex.refuse("BTClibValueError", refused_only_out_of_range=t >= N)
    g_ = ite((2 + odd) % 2 != 0, N - 1, 1) if xonly else 1
    return {"accepted_only_in_range": t < N, "gacc": out.gacc == g_ * gacc % N, "tacc": out.tacc == (t + g_ * tacc) % N}


@ob("C16", "musig2_partial_sig_aggregation_is_bip327", quick=[dict(k=1), dict(k=2), dict(k=3)],
    bound="k partial signatures of 32 symbolic bytes each, session values e, tacc symbolic and parity of Q symbolic: s = sum(s_i) + e*g*tacc mod n; a partial signature >= n is refused naming its index",
    stubs=["session_values is an arbitrary record; the product e*tacc is uninterpreted on both sides"],
    functions=["btclib.ecc.musig2._agg_s"], timeout=900, min_ok=1, query_timeout_ms=300000)
def agg_s(ex, k):
    ex.merge_conditionals()
    ex.abstract_wide_arith(200, div_bits=None)
    ex.prefer_int()
    psigs = [ex.bytes(f"s{i}_", 32) for i in range(k)]
    e_ = ex.int("e", 0, N - 1)
    tacc_ = ex.int("tacc", 0, N - 1)
    q_odd = ex.int("q_odd", 0, 1)

    class _V:
        R = (77, 2)
        Q = (5, 2 + q_odd)
        e = e_
        tacc = tacc_
    ex.stub(musig2.session_values, lambda ctx: _V)
    vals = [int.from_bytes(p, "big") for p in psigs]
    try:
        x_R, s = musig2._agg_s(psigs, object())
    except musig2.InvalidContributionError as err:
        bad = sor(*[v >= N for v in vals])
        return ex.refuse("InvalidContributionError", refused_only_for_out_of_range=bad)
    g_ = ite((2 + q_odd) % 2 == 0, 1, N - 1)      # BIP327: g = 1 if has_even_y(Q) else n - 1 (a term, as in the library: no case split)
    acc = 0
    for v in vals:
        acc = (acc + v) % N
    want = (acc + e_ * g_ * tacc_) % N
    return {"all_in_range": sand(*[v < N for v in vals]), "aggregate_scalar": s == want, "x_R": x_R == 77}


# ------------------------------------------------------------------ BIP352 sender: one key per address, in address order, with a counter per scan key
from btclib import silent_payments as _sp


@ob("C16", "silent_payment_keys_cover_every_address_with_a_counter_per_scan_key", quick=[dict(n=n) for n in (1, 2, 3)], thorough=[dict(n=n) for n in (1, 2, 3, 4)],
    bound="n = 1..3 (thorough 4) recipient addresses whose scan keys are symbolic over three values (so every pattern of repeated, adjacent and interleaved scan keys), distinct spend keys: "
          "output_keys returns exactly one key per address, each derived as output_key(shared secret of that address's scan key, its spend key, k) where k is the number of earlier addresses of "
          "the same scan key -- so that each scanner, counting k up from 0, finds every output of its group. The order of the returned list is NOT claimed (the property does not state it; see DESIGN 6.2)",
    stubs=["keys_from_address, prv_key_sum, input_hash, mult, shared_secret and output_key are abstract (symbolic scan keys; output_key records its arguments): the elliptic-curve part is C01/C03's subject"],
    functions=["btclib.silent_payments.output_keys"], min_ok=1, timeout=300)
def sp_output_counters(ex, n):
    scans = [ex.int(f"scan{i}", 0, 2) for i in range(n)]
    table = {f"addr{i}": ((scans[i], 1), (100 + i, 1), "main") for i in range(n)}
    ex.stub(_sp.keys_from_address, lambda a: table[a])
    ex.stub(_sp.prv_key_sum, lambda pk: 5)
    ex.stub(_sp.input_hash, lambda ops, A: 7)
    ex.stub(_sp.mult, lambda *a, **k: (9, 1))
    ex.stub(_sp.shared_secret, lambda scalar, point: ("secret", point[0]))
    ex.stub(_sp.output_key, lambda secret, B_m, k: (secret[1], B_m[0], k))
    got = _sp.output_keys([(1, b"")], [object()], [f"addr{i}" for i in range(n)])
    claims = {"one_key_per_address": len(got) == n}
    if len(got) == n:
        for i in range(n):
            k_i = sum(ite(scans[j] == scans[i], 1, 0) for j in range(i)) if i else 0
            # the spend keys are distinct, so the key made for address i is the one carrying its spend key
            claims[f"address_{i}_has_its_key_with_its_counter"] = sor(*[sand(g[0] == scans[i], g[1] == 100 + i, g[2] == k_i) for g in got])
    return claims


from btclib.psbt import silent_payments as _psp


class _Out:
    def __init__(self, info):
        self.sp_v0_info = info


@ob("C16", "psbt_silent_payment_scripts_count_k_per_scan_key", quick=[dict(n=n) for n in (1, 2, 3)], thorough=[dict(n=n) for n in (1, 2, 3, 4)],
    bound="a PSBT with n = 1..3 (thorough 4) silent-payment outputs whose scan keys are symbolic over three values (repeated, adjacent and interleaved patterns), distinct spend keys: "
          "output_scripts derives output i from the shared secret of its scan key, its spend key and k = the number of earlier silent-payment outputs of the same scan key",
    stubs=["_ordered_sp_outputs, _share_and_sum, shared_secret_from_share, output_key and script serialization are abstract (they record their arguments)"],
    functions=["btclib.psbt.silent_payments.output_scripts"], min_ok=1, timeout=300)
def psbt_sp_counters(ex, n):
    scans = [ex.int(f"scan{i}", 0, 2) for i in range(n)]
    outs = [(i, _Out(bytes([2, scans[i]]) + b"\x00" * 31 + bytes([3, 100 + i]) + b"\x00" * 31)) for i in range(n)]
    ex.stub(_psp._ordered_sp_outputs, lambda psbt: outs)
    ex.stub(_psp._share_and_sum, lambda psbt, scan_key: (("share", scan_key[1]), "A"))
    ex.stub(_psp.shared_secret_from_share, lambda psbt, share, A: ("secret", share[1]))
    ex.stub(_psp.sp.output_key, lambda secret, B_m, k: (secret[1], B_m[1], k))
    ex.stub(_psp.serialize, lambda items: items[1])
    got = _psp.output_scripts(object())
    claims = {"one_script_per_output": len(got) == n}
    if len(got) == n:
        for i in range(n):
            k_i = sum(ite(scans[j] == scans[i], 1, 0) for j in range(i)) if i else 0
            g = got[i]
            claims[f"output_{i}"] = sand(g[0] == scans[i], g[1] == 100 + i, g[2] == k_i)
    return claims


# ------------------------------------------------------------------ BIP373 session: the aggregate nonce counts a participant as often as the key list does
from btclib.psbt import musig2 as _pm


class _Parts:
    def __init__(self, participants):
        self.participants = participants
        self.tweaked_pub_key = b"\x02" + b"\x55" * 32
        self.tweaks, self.is_xonly, self.msg, self.key_agg_ctx = [], [], b"m", "ctx"


class _In:
    pass


class _P:
    def __init__(self):
        self.inputs = [_In()]


@ob("C16", "bip373_aggregate_nonce_follows_the_participant_list", quick=[dict(n=n) for n in (1, 2, 3)],
    bound="a session of n = 1..3 list positions whose participant keys are symbolic over three values (so a key may appear once, twice or three times, anywhere in the list), a public nonce stored per "
          "distinct key: session_context hands nonce_agg one nonce per list position, in list order -- a key that BIP327 lets appear twice is counted twice, as its coefficient and its partial "
          "signature are",
    stubs=["_session_parts, _session_pub_nonces, musig2.nonce_agg and SessionContext are abstract (they record their arguments)"],
    functions=["btclib.psbt.musig2.session_context"], min_ok=1, timeout=300)
def bip373_nonces(ex, n):
    ids = [ex.int(f"key{i}", 0, 2) for i in range(n)]
    keys = [bytes([2, ids[i]]) + b"\x00" * 31 for i in range(n)]
    nonce_of = {bytes([2, v]) + b"\x00" * 31: bytes([0xA0 + v]) * 66 for v in range(3)}
    ex.stub(_pm._session_parts, lambda psbt, vin_i, agg, leaf_hash: _Parts(keys))
    present = {}
    for k in keys:                       # one stored nonce per distinct participant (a map has one entry per key)
        present[bytes(k)] = nonce_of[bytes(k)]
    ex.stub(_pm._session_pub_nonces, lambda psbt_in, tweaked, leaf_hash: dict(present))
    seen = {}

    def fake_agg(nonces):
        seen["nonces"] = list(nonces)
        return b"agg"
    ex.stub(_pm.musig2.nonce_agg, fake_agg)
    ex.stub(_pm.musig2.SessionContext, lambda *a, **k: ("ctx", a))
    _pm.session_context(_P(), 0, b"\x02" + b"\x66" * 32)
    got = seen.get("nonces", [])
    return {"one_nonce_per_list_position_in_order": sand(len(got) == n, *[got[i][0] == 0xA0 + ids[i] for i in range(min(n, len(got)))]) if len(got) == n else False}


# ------------------------------------------------------------------ BIP327 PartialSigVerify: the scalar the signer's key is multiplied by
@ob("C16", "musig2_partial_sig_verify_key_scalar_is_bip327", quick=[dict()],
    bound="session value b symbolic over 0..n-1, gacc symbolic over its two possible values {1, n-1}, parities of Q and of R symbolic, e and the key aggregation coefficient a fixed 256-bit constants: the Python arm of partial_sig_verify_ multiplies the signer's key "
          "by e*a*g' with g' = g*gacc mod n, g = 1 for an even-y Q and n-1 otherwise, negates the effective nonce exactly when R has odd y, and multiplies the second nonce by b",
    stubs=["session_values, _cpoint, _session_key_agg_coeff, mult, secp256k1.add_var / negate are abstract (they record their operands)"],
    functions=["btclib.ecc.musig2.partial_sig_verify_"], timeout=900, min_ok=1, query_timeout_ms=300000)
def partial_sig_verify_scalar(ex):
    ex.merge_conditionals()
    ex.prefer_int()
    # gacc is a product of +-1 factors (BIP327): 1 or n-1; e and a are fixed 256-bit constants so that e*a*g' stays linear in what is symbolic
    e_ = 0x3C9F5D2A8E1B47C6A0F3E2D1C4B5A69788776655443322110FEDCBA987654321 % N
    a_ = 0x7A1B2C3D4E5F60718293A4B5C6D7E8F9FEDCBA98765432100123456789ABCDEF % N
    b_ = ex.int("b", 0, N - 1)
    gacc_ = ite(ex.bool("gacc_negative"), N - 1, 1)
    q_odd, r_odd = ex.int("q_odd", 0, 1), ex.int("r_odd", 0, 1)
    s_bytes = ex.bytes("s", 32)

    class _V:
        R = (77, 2 + r_odd)
        Q = (5, 2 + q_odd)
        e, b, gacc = e_, b_, gacc_
    mults, negs = [], []
    ex.stub(musig2.session_values, lambda ctx: _V)
    ex.stub(musig2._cpoint, lambda octets: ("pt", bytes(octets)[:1]))
    ex.stub(musig2._session_key_agg_coeff, lambda ctx, pk: a_)
    ex.stub(musig2.mult, lambda m, Q=None, ec=None: mults.append((m, Q)) or ("mul", len(mults)))
    ex.stub(secp256k1.add_var, lambda A, B: ("add", A, B), owner=secp256k1, attr="add_var")
    ex.stub(secp256k1.negate, lambda A: negs.append(A) or ("neg", A), owner=secp256k1, attr="negate")

    class _Ctx:
        msg = b"x" * 5
        adaptor = None
    try:
        musig2.partial_sig_verify_(s_bytes, b"\x02" + b"\x11" * 32 + b"\x03" + b"\x12" * 32, b"\x02" + b"\x13" * 32, _Ctx())
    except BTClibValueError:
        return ex.refuse("BTClibValueError")
    s_int = int.from_bytes(s_bytes, "big")
    if s_int >= N:
        return {"out_of_range_partial_signature_is_false_before_any_point_work": len(mults) == 0}
    g = ite((2 + q_odd) % 2 == 0, 1, N - 1)
    g2 = g * gacc_ % N
    want = e_ * a_ * g2 % N
    key_mults = [m for m, Q in mults if Q == ("pt", b"\x02") and m is not s_int]
    return {"three_multiplications": len(mults) == 3,
            "second_nonce_times_b": mults[0][0] == b_ if mults else False,
            "nonce_negated_iff_R_odd": (len(negs) == 1) == bool((2 + r_odd) % 2 != 0),
            "key_scalar_is_e_a_g_gacc": mults[2][0] == want if len(mults) == 3 else False,
            "generator_times_s": mults[1][0] == s_int if len(mults) == 3 else False}
