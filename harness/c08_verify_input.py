"""C08 — verify_input (scriptSig / scriptPubKey / P2SH / witness dispatch) against a transcription of Core's VerifyScript, signature-free scripts."""
from sx.api import ob, sand, sor, snot, ite, implies, iff
from refs import core_script as core

from btclib import hashes as _hashes
from btclib.exceptions import BTClibValueError, ScriptError
from btclib.script.engine import verify_input
from btclib.script.engine.flags import ScriptFlag
from btclib.script.witness import Witness
from btclib.tx.out_point import OutPoint
from btclib.tx.tx import Tx
from btclib.tx.tx_in import TxIn
from btclib.tx.tx_out import TxOut
from harness.c08_engine import _hashes_table

_FLAGSETS = {
    "consensus": ["P2SH", "WITNESS", "CHECKLOCKTIMEVERIFY", "CHECKSEQUENCEVERIFY"],
    "standard": ["P2SH", "WITNESS", "CHECKLOCKTIMEVERIFY", "CHECKSEQUENCEVERIFY", "MINIMALDATA", "MINIMALIF", "CLEANSTACK", "SIGPUSHONLY",
                 "DISCOURAGE_UPGRADABLE_NOPS", "DISCOURAGE_UPGRADABLE_WITNESS_PROGRAM"],
    "no_witness": ["P2SH", "CHECKLOCKTIMEVERIFY", "CHECKSEQUENCEVERIFY"],
}

# inner scripts (no signature opcodes): what the redeem / witness script checks
_INNER = {
    "add_equal": bytes.fromhex("8b5287"),            # 1ADD 2 EQUAL  -> needs the element 1
    "true": bytes.fromhex("51"),
    "drop_true": bytes.fromhex("7551"),
    "long_push": bytes([0x4D, 0x08, 0x02]) + b"\x07" * 520 + bytes.fromhex("7551"),    # a 525-byte script: PUSHDATA2(520 bytes) DROP 1
    "if_else": bytes.fromhex("63516751" + "68"),     # IF 1 ELSE 1 ENDIF
}


def _spk(kind, inner):
    if kind == "bare":
        return inner
    if kind == "p2sh":
        return b"\xa9\x14" + _hashes.hash160(inner) + b"\x87"
    if kind == "p2wsh":
        return b"\x00\x20" + _hashes.sha256(inner)
    if kind == "p2sh_p2wsh":
        redeem = b"\x00\x20" + _hashes.sha256(inner)
        return b"\xa9\x14" + _hashes.hash160(redeem) + b"\x87"
    if kind == "v2_unknown":
        return b"\x52\x02\xaa\xbb"
    if kind == "v0_len21":                      # version 0 with a program that is neither 20 nor 32 bytes: WITNESS_PROGRAM_WRONG_LENGTH
        return b"\x00\x15" + b"\x33" * 21
    if kind == "v1_len31":                      # version 1 but not 32 bytes: an unknown witness program, not taproot
        return b"\x51\x1f" + b"\x33" * 31
    if kind == "v16_len40":
        return b"\x60\x28" + b"\x33" * 40
    if kind == "v1_len41":                      # 43 bytes: too long to be a witness program at all -- a bare script pushing 41 bytes after OP_1
        return b"\x51\x29" + b"\x33" * 41
    if kind == "p2sh_v0_len21":
        return b"\xa9\x14" + _hashes.hash160(b"\x00\x15" + b"\x33" * 21) + b"\x87"
    if kind == "anchor":
        return b"\x51\x02\x4e\x73"
    if kind == "v1_len32_pre_taproot":          # none of the flag sets here carries TAPROOT: the program is an unknown one (anyone can spend)
        return b"\x51\x20" + b"\x33" * 32
    raise ValueError(kind)


_ODD = ("v2_unknown", "v0_len21", "v1_len31", "v16_len40", "v1_len41", "p2sh_v0_len21", "anchor", "v1_len32_pre_taproot")


def _params(tier):
    out = []
    inners = ["add_equal", "true", "drop_true", "long_push", "if_else"]
    for fs in _FLAGSETS:
        for kind in ("bare", "p2sh", "p2wsh", "p2sh_p2wsh") + _ODD:
            for inner in inners:
                if kind in _ODD and inner != "true":
                    continue
                for sig_shape in (("inner_args",), ("inner_args", "extra_front"), ("nop_front",)):
                    for wit_shape in ("none", "args", "args_extra"):
                        if tier == "quick" and (inner in ("drop_true",) or (sig_shape != ("inner_args",) and wit_shape == "args_extra")):
                            continue
                        out.append(dict(flags=fs, kind=kind, inner=inner, sig=list(sig_shape), wit=wit_shape))
    return out


@ob("C08", "verify_input_dispatch_vs_core", quick=_params("quick"), thorough=_params("thorough"),
    bound="one input spending a bare / P2SH / P2WSH / P2SH-P2WSH output, or an odd witness program (unknown version, version 0 with 21 bytes bare and P2SH-wrapped, version 1 with 31 bytes, version 16 with 40 bytes, a 43-byte look-alike, pay-to-anchor), whose inner script is one of five signature-free scripts (one of them 525 bytes long); "
          "the scriptSig is assembled from pushes of symbolic 1-byte arguments (plus, per shape, an extra leading push or a leading NOP) and, where the kind needs it, the push of the redeem script; "
          "the witness is absent / symbolic 1-byte arguments + witness script / the same with an extra symbolic element; three flag sets (consensus, standard policy, pre-segwit)",
    stubs=["sha256 / ripemd160 of symbolic data are uninterpreted (scripts are concrete, so their hashes are the real ones)"],
    functions=["btclib.script.engine.verify_input", "btclib.script.engine._verify_witness_program", "btclib.script.engine._verify_witness_v0"],
    outside=["signature opcodes, p2wpkh and taproot spends (the signature / tweak check is 256-bit arithmetic)"],
    timeout=600, min_ok=0)
def verify_input_dispatch(ex, flags, kind, inner, sig, wit):
    inner_b = _INNER[inner]
    spk = _spk(kind, inner_b)
    fl = set(_FLAGSETS[flags])
    sflags = ScriptFlag(0)
    for name in fl:
        sflags |= ScriptFlag[name]
    nargs = {"add_equal": 1, "true": 0, "drop_true": 1, "long_push": 0, "if_else": 1}[inner]
    args = [ex.bytes(f"a{k}_", 1) for k in range(nargs)]
    # scriptSig
    parts = []
    if "extra_front" in sig:
        parts.append(core.push_of(ex.bytes("x", 1)))
    if "nop_front" in sig:
        parts.append(b"\x61")
    if kind in ("bare", "p2sh"):
        for a in args:
            parts.append(core.push_of(a))
    if kind == "p2sh":
        parts.append(core.push_of(inner_b))
    if kind == "p2sh_p2wsh":
        parts.append(core.push_of(b"\x00\x20" + _hashes.sha256(inner_b)))
    if kind == "p2sh_v0_len21":
        parts.append(core.push_of(b"\x00\x15" + b"\x33" * 21))
    script_sig = b"".join(parts) if parts else b""
    # witness
    wstack = []
    if wit != "none":
        if wit == "args_extra":
            wstack.append(ex.bytes("wx", 1))
        if kind in ("p2wsh", "p2sh_p2wsh"):
            wstack += list(args) + [inner_b]
        else:
            wstack += [ex.bytes("w0", 1)]
    tx = Tx(2, 0, [TxIn(OutPoint(b"\x01" * 32, 0, check_validity=False), script_sig, 0xFFFFFFFF, Witness(wstack, check_validity=False), check_validity=False)],
            [TxOut(1000, b"\x51", check_validity=False)], check_validity=False)
    prevouts = [TxOut(2000, spk, check_validity=False)]
    try:
        verify_input(prevouts, tx, 0, sflags)
        lib_ok = True
    except (ScriptError, BTClibValueError):
        lib_ok = False
    try:
        core.verify_script(script_sig, spk, wstack, fl, _hashes.sha256, hashes=_hashes_table())
        ref_ok = True
    except core.ScriptErr:
        ref_ok = False
    return {"same_verdict_as_core_VerifyScript": lib_ok == ref_ok}
