"""C01 — curve and field arithmetic against an independent model of the whole group (toy curves)."""
from sx.api import ob, sand, sor, snot, ite, implies, iff
from harness import toy

from btclib.alias import INF, INFJ
from btclib.curves import curve as curve_mod
from btclib.curves import curve_group as cg
from btclib.curves import curve_group_2 as cg2
from btclib.exceptions import BTClibValueError, BTClibTypeError, BTClibRuntimeError

CURVES_Q = ["ec13_11", "ec17_13"]
CURVES_T = ["ec13_11", "ec17_13", "ec13_19", "ec17_23"]      # p <= 17: beyond that z3 answers unknown on the Jacobian identities (see DESIGN)


def _sym_jac(ex, g, tag):
    """A symbolic point of the whole group in Jacobian coordinates with an arbitrary Z (Z = 0 iff infinity).

    Infinity is (X, Y, 0) with X != 0 and Y arbitrary: the library's INFJ is (7, 0, 0) and every representative it can
    produce from it (blinding multiplies X by a non-zero square) keeps X non-zero on these curves (p != 7); the
    degenerate triple (0, 0, 0) is not a value the library builds and is outside the claim."""
    d = ex.int(f"d{tag}", 0, g.N - 1)
    z = ex.int(f"z{tag}", 1, g.p - 1)
    p = g.p
    x, y = g.xs[d], g.ys[d]
    zz = z * z % p
    return d, (ite(d == 0, ex.int(f"jx{tag}", 1, p - 1), x * zz % p), ite(d == 0, ex.int(f"jy{tag}", 0, p - 1), y * zz * z % p), ite(d == 0, 0, z))


def _jac_is(g, PJ, d):
    """PJ is a Jacobian representative of the group element with dlog d (cross-multiplied: no inverses)."""
    X, Y, Z = PJ
    p = g.p
    Z2 = Z * Z % p
    return ite(d == 0, Z == 0, sand(Z != 0, (X - g.xs[d] * Z2) % p == 0, (Y - g.ys[d] * Z2 * Z) % p == 0))


@ob("C01", "jacobian_addition_is_the_group_law", quick=[dict(ec="ec13_11")], thorough=[dict(ec=c) for c in CURVES_T if c != "ec17_23"],       # the 23-point curve over F_17: add_jac solver-unknown
    bound="two arbitrary points of the whole curve group (infinity included, equal / opposite points included) each with an arbitrary non-zero Z; "
          "for an operand at infinity X (non-zero) and Y are arbitrary; quick: ec13_11; thorough: ec13_11, ec17_13, ec13_19",
    functions=["btclib.curves.curve_group.CurveGroup.add_jac", "btclib.curves.curve_group.CurveGroup._double_jac_helper", "btclib.curves.curve_group.CurveGroup.double_jac",
               "btclib.curves.curve_group.CurveGroup.add_jac_aff", "btclib.curves.curve_group.CurveGroup.negate_jac", "btclib.curves.curve_group.CurveGroup.is_jac_equal"],
    outside=["curves other than the toy curves (the formulas are polynomial identities, but that is an argument, not a solver verdict)"],
    timeout=1200, weight=8, query_timeout_ms=240000)
def add_jac(ex, ec):
    g = toy.group(ec)
    ec = toy.curve(ec)
    d1, Q = _sym_jac(ex, g, 1)
    d2, R = _sym_jac(ex, g, 2)
    S = ec.add_jac(Q, R)
    claims = {"add_jac": _jac_is(g, S, g.add_idx(d1, d2))}
    D = ec.double_jac(Q)
    claims["double_jac"] = _jac_is(g, D, g.add_idx(d1, d1))
    Raff = g.aff(d2)
    claims["add_jac_aff"] = _jac_is(g, ec.add_jac_aff(Q, Raff), g.add_idx(d1, d2))
    claims["negate_jac"] = _jac_is(g, ec.negate_jac(Q), g.neg_idx(d1))
    claims["is_jac_equal"] = iff(ec.is_jac_equal(Q, R), d1 == d2)
    return claims


@ob("C01", "affine_addition_and_conversion", quick=[dict(ec=c) for c in CURVES_Q], thorough=[dict(ec=c) for c in CURVES_T],
    bound="two arbitrary points of the whole group (affine, infinity included); Jacobian->affine conversion for an arbitrary non-zero Z",
    functions=["btclib.curves.curve_group.CurveGroup.add_aff_var", "btclib.curves.curve_group.CurveGroup.double_aff_var", "btclib.curves.curve_group.CurveGroup.aff_from_jac_var",
               "btclib.curves.curve_group.CurveGroup.is_on_curve"],
    timeout=900, weight=4)
def add_aff(ex, ec):
    g = toy.group(ec)
    ec = toy.curve(ec)
    d1 = ex.int("d1", 0, g.N - 1)
    d2 = ex.int("d2", 0, g.N - 1)
    P, Q = g.aff(d1), g.aff(d2)
    S = ec.add_aff_var(P, Q)
    want = g.aff(g.add_idx(d1, d2))
    D = ec.double_aff_var(P)
    wantd = g.aff(g.add_idx(d1, d1))
    d3, J = _sym_jac(ex, g, 3)
    A = ec.aff_from_jac_var(J)
    want3 = g.aff(d3)
    x = ex.int("x", 0, g.p - 1)
    y = ex.int("y", 0, g.p - 1)
    on = ec.is_on_curve((x, y))
    return {"add_aff_var": sand(S[0] == want[0], S[1] == want[1]), "double_aff_var": sand(D[0] == wantd[0], D[1] == wantd[1]),
            "aff_from_jac_var": sand(A[0] == want3[0], A[1] == want3[1]),
            "is_on_curve_iff_in_group_or_inf": iff(on, sor(g.idx_of_aff(x, y) >= 0, y == 0))}


def _mult_params(tier):
    fns = ["_mult", "_mult_fixed_base", "_mult_regular_window", "_mult_mont_ladder_var", "_mult_jac_var", "_mult_base_3_var", "_mult_fixed_window_var",
           "_mult_w_NAF_var", "_mult_sliding_window_var", "_mult_recursive_jac_var"]
    curves = ["ec13_11"] if tier == "quick" else ["ec13_11", "ec17_13", "ec23_19"]
    # on the 19-point curve over F_23 the two blinded ladders exceed the instance budget / come back solver-unknown
    return [dict(ec=c, fn=f) for c in curves for f in fns if not (c == "ec23_19" and f in ("_mult", "_mult_regular_window"))]


@ob("C01", "scalar_multiplication_variants", quick=_mult_params("quick"), thorough=_mult_params("thorough"),
    bound="scalar m in 0..n-1 symbolic (private variants take a reduced scalar), base point = every element of the group (case split by the solver; symbolic Z for the variable-base ladders), window w in 2..4 where it applies",
    functions=["btclib.curves.curve_group._mult", "btclib.curves.curve_group._mult_fixed_base", "btclib.curves.curve_group._mult_regular_window",
               "btclib.curves.curve_group._mult_mont_ladder_var", "btclib.curves.curve_group_2._mult_w_NAF_var", "btclib.curves.curve_group_2._mult_sliding_window_var",
               "btclib.curves.curve_group.signed_odd_digits"],
    timeout=1200, weight=6, max_decisions=20000)
def mult_variants(ex, ec, fn):
    g = toy.group(ec)
    ec = toy.curve(ec)
    n = ec.n
    m = ex.int("m", 0, n - 1)
    d = ex.concretize(ex.int("d", 0, g.N - 1))     # every base point of the group, one case per point (solver-driven split)
    z = ex.int("z", 1, g.p - 1) if fn in ("_mult", "_mult_jac_var", "_mult_mont_ladder_var") else 1
    QJ = g.jac(d) if d == 0 or fn not in ("_mult", "_mult_jac_var", "_mult_mont_ladder_var") else (g.xs[d] * z * z % g.p, g.ys[d] * z * z * z % g.p, z)
    w = None
    if fn in ("_mult_fixed_base", "_mult_regular_window", "_mult_fixed_window_var", "_mult_w_NAF_var", "_mult_sliding_window_var"):
        w = ex.concretize(ex.int("w", 2, 4))
    f = getattr(cg, fn, None) or getattr(cg2, fn)
    if fn == "_mult_fixed_window_var":
        R = f(m, QJ, ec, w, False)
    else:
        R = f(m, QJ, ec, w) if w is not None else f(m, QJ, ec)
    return {"is_m_times_Q": _jac_is(g, R, g.mul_idx(m, d))}


@ob("C01", "public_mult_all_scalars", quick=[], thorough=[dict(ec="ec13_11"), dict(ec="ec17_13")],
    bound="curves.mult with scalar m in -n..3n symbolic (zero, the order, multiples, negative, beyond) and every point of the group (case split by the solver), infinity included",
    functions=["btclib.curves.curve.mult", "btclib.curves.curve._mult_checked"], timeout=1200, weight=6, max_decisions=20000)
def public_mult(ex, ec):
    g = toy.group(ec)
    ec = toy.curve(ec)
    n = ec.n
    m = ex.int("m", -n, 3 * n)
    d = ex.concretize(ex.int("d", 0, g.N - 1))
    R = curve_mod.mult(m, g.aff(d), ec)
    want = g.aff(g.mul_idx(m, d))
    return {"is_m_times_Q": sand(R[1] == want[1], sor(want[1] == 0, R[0] == want[0]))}


@ob("C01", "off_curve_points_are_refused", quick=[dict(ec=c) for c in CURVES_Q], thorough=[dict(ec=c) for c in CURVES_T],
    bound="every pair (x, y) with x in -p..2p (values outside the field included) and y in 0..p-1 (symbolic) and scalar m in 0..n: accepted exactly when the pair is a point of the curve "
          "with coordinates in 0..p-1, or has y == 0 (the library's affine infinity)",
    functions=["btclib.curves.curve.mult", "btclib.curves.curve_group.CurveGroup.require_on_curve"], timeout=600, min_ok=0)
def off_curve(ex, ec):
    g = toy.group(ec)
    ec = toy.curve(ec)
    x = ex.int("x", -g.p, 2 * g.p)            # also values outside the field: x = p + x0 is not a coordinate even if (x0, y) is a point
    y = ex.int("y", 0, g.p - 1)
    on = sor(y == 0, g.idx_of_aff(x, y) >= 0)
    ex.assume(snot(on))
    m = ex.int("m", 0, ec.n)
    try:
        curve_mod.mult(m, (x, y), ec)
    except BTClibValueError:
        return ex.refuse("BTClibValueError")
    return {"off_curve_point_answered": False}


@ob("C01", "off_curve_points_are_refused_by_the_multi_term_entry_points", quick=[dict(ec="ec13_11", where=w) for w in (0, 1)], thorough=[dict(ec=c, where=w) for c in CURVES_T for w in (0, 1)],
    bound="double_mult_var and multi_mult_var with two terms, one of them (first or second) a symbolic pair (x in -p..2p, y in 0..p-1) that is not a point of the curve, the other the generator; "
          "both scalars symbolic over -n..2n, so zero, the order and its multiples are included: always refused",
    functions=["btclib.curves.curve.multi_mult_var", "btclib.curves.curve.double_mult_var"], timeout=600, min_ok=0)
def off_curve_multi(ex, ec, where):
    g = toy.group(ec)
    ec = toy.curve(ec)
    x = ex.int("x", -g.p, 2 * g.p)
    y = ex.int("y", 0, g.p - 1)
    ex.assume(snot(sor(y == 0, g.idx_of_aff(x, y) >= 0)))
    u = ex.int("u", -ec.n, 2 * ec.n)
    v = ex.int("v", -ec.n, 2 * ec.n)
    pts = [(x, y), ec.G] if where == 0 else [ec.G, (x, y)]
    claims = {}
    for name, f in (("multi_mult_var", lambda: curve_mod.multi_mult_var([u, v], pts, ec)), ("double_mult_var", lambda: curve_mod.double_mult_var(u, pts[0], v, pts[1], ec))):
        try:
            f()
            claims[name + "_answered_an_off_curve_point"] = False
        except BTClibValueError:
            claims[name + "_refused"] = True
    return claims


@ob("C01", "double_and_multi_mult", quick=[], thorough=[dict(ec="ec13_11", k=2)],
    bound="u_i in 0..n-1 symbolic, points = every tuple of elements of the group (case split by the solver); k = 2 terms (double_mult_var and multi_mult_var), thorough also 3 terms",
    functions=["btclib.curves.curve.double_mult_var", "btclib.curves.curve.multi_mult_var"], timeout=1500, weight=8, max_decisions=40000, max_paths=400000)
def multi_mult(ex, ec, k):
    g = toy.group(ec)
    ec = toy.curve(ec)
    n = ec.n
    us = [ex.int(f"u{i}", 0, n - 1) for i in range(k)]
    ds = [ex.concretize(ex.int(f"d{i}", 0, g.N - 1)) for i in range(k)]
    pts = [g.aff(d) for d in ds]
    acc = 0
    for u, d in zip(us, ds):
        acc = g.add_idx(acc, g.mul_idx(u, d))
    want = g.aff(acc)
    R = curve_mod.multi_mult_var(us, pts, ec)
    claims = {"multi_mult_var": sand(R[0] == want[0], R[1] == want[1])}
    if k == 2:
        R2 = curve_mod.double_mult_var(us[0], pts[0], us[1], pts[1], ec)
        claims["double_mult_var"] = sand(R2[0] == want[0], R2[1] == want[1])
    return claims
